#!/bin/bash
# The same regression as tools/seeded.sh, several seeded changes at a time: N throw-away copies
# of /verif (without .git and replays) and N clones of /repo under /dev/shm, each copy working
# through its share of /verif/seeded/*.  /repo itself is only read.  Everything is removed at
# the end.  usage: tools/seeded_par.sh [N=3] [tier=quick] [id ...]
set -u
N="${1:-3}"; tier="${2:-quick}"; shift; shift || true
ids=("$@"); [ ${#ids[@]} -gt 0 ] || ids=($(ls /verif/seeded))
[ -z "$(git -C /repo status --porcelain)" ] || { echo "/repo not clean"; exit 2; }
base=/dev/shm/seeded-par.$$
trap 'rm -rf "$base"' EXIT
mkdir -p "$base"
for i in $(seq 0 $((N - 1))); do
  mkdir -p "$base/$i"
  rsync -a --exclude .git --exclude replays /verif/ "$base/$i/verif/" || exit 2
  git clone -q /repo "$base/$i/repo" || exit 2
  (
    k=0
    for id in "${ids[@]}"; do
      if [ $((k % N)) -eq "$i" ]; then
        prop="${id%%-*}"
        if git -C "$base/$i/repo" apply "/verif/seeded/$id/patch.diff" 2>/dev/null; then
          t0=$(date +%s)
          ( cd "$base/$i/verif" && VERIF_REPO="$base/$i/repo" VERIF_NO_EVIDENCE=1 ./check "$prop" "$tier" ) > "$base/$i/$id.log" 2>&1; rc=$?
          git -C "$base/$i/repo" checkout -- .
          clause=$(grep -m1 '^clause ' "$base/$i/$id.log" | cut -c1-150)
          echo "$id $prop $tier exit=$rc $(( $(date +%s) - t0 ))s  $clause"
        else
          echo "$id: patch does not apply"
        fi
      fi
      k=$((k + 1))
    done
  ) &
done
wait
