#!/usr/bin/env python3
"""Sensitivity of the checks: apply a deliberate property-breaking edit to /repo's working
tree, run the property's quick check, undo the edit (git checkout).  Usage:
    tools/sensitivity.py [name ...]     (no name: all)
Each mutant must make its check exit 1 with a VIOLATION line - except the "benign-" entries,
behaviour changes that break no property, under which the check must exit 0; the script prints a table.
Nothing is ever committed to /repo."""
import subprocess, sys, os, time

REPO = "/repo"
M = {}
def mut(name, prop, file, old, new):
    M[name] = (prop, file, old, new)

# ---------------- C01
mut("c01-revert-order-fix", "C01", "src/lib.rs",
    "        v.sort();\n", "")
# ---------------- C19
mut("c19-wsca-comments-kept", "C19", "src/cli/parse.rs",
    "        let mut line_iter = line.trim().split('#');", "        let mut line_iter = line.trim().split('\\u{1}');")
mut("c19-rsca-writer-drops-desc-lines", "C19", "src/cli/util.rs",
    "        for d in rg.description.split('\\n') {", "        for d in rg.description.split('\\n').take(1) {")
mut("c19-rsca-blank-line-closes-group", "C19", "src/cli/parse.rs",
    "            if !r.is_empty() && !r.description.is_empty() {", "            if !r.is_empty() && !r.rule.is_empty() {")
mut("c19-output-joined-with-space", "C19", "src/cli/run.rs",
    "res.join(LINE_ENDING)", "res.join(\" \")")
mut("c19-read-error-swallowed", "C19", "src/cli/util.rs",
    "            println!(\"Error occurred when reading file {path:?}\");\n            Err(map_io_error(e))\n        },\n    }\n}\n\npub(super) fn dir_create_all",
    "            let _ = e; Ok(String::new())\n        },\n    }\n}\n\npub(super) fn dir_create_all")
mut("c19-json-words-not-overridden", "C19", "src/cli/run.rs",
    "        let (words, _) = if let Some(inp) = input {\n            parse::parse_wsca(&util::validate(&inp, &[WORD_FILE_EXT, \"txt\"])?)?\n        } else {\n            (json.words, Vec::new())\n        };",
    "        let (words, _) = if let Some(inp) = input {\n            let _ = parse::parse_wsca(&util::validate(&inp, &[WORD_FILE_EXT, \"txt\"])?)?;\n            (json.words, Vec::<String>::new())\n        } else {\n            (json.words, Vec::new())\n        };")
mut("c19-conv-json-arg-swap", "C19", "src/main.rs",
    "cli::convert::from_json(path, words, rules, alias)", "cli::convert::from_json(path, words, alias, rules)")
mut("c19-write-error-ignored", "C19", "src/cli/util.rs",
    "    if let Err (e) = fs::write(path, content) {\n        println!(\"Error occurred writing to file {path:?}\");\n        return Err(map_io_error(e))\n    }\n    println!(\":: Wrote to file {:?}\", path);",
    "    let _ = fs::write(path, content);\n    println!(\":: Wrote to file {:?}\", path);")
# ---------------- C20
mut("c20-only-filter-keeps-file-order", "C20", "src/cli/config/parser.rs",
    "                let mut entries = Vec::new();\n                for filter in &filters {\n                    match entry_rules.iter().find(|r| r.name.to_lowercase() == filter.to_lowercase()) {\n                        Some(entry) => entries.push(entry.clone()),\n                        None => return Err(self.error(format!(\"Could not find rule '{}' in '{}'.\\nMake sure the rule name matches exactly!\", filter, rule_file))),\n                    }\n                }\n",
    "                let entries = entry_rules.iter().filter(|r| filters.contains(&r.name.to_lowercase())).cloned().collect::<Vec<_>>();\n")
mut("c20-exclude-mult-only-first", "C20", "src/cli/config/parser.rs",
    "filter(|r| !filters.contains(&r.name.to_lowercase()))", "filter(|r| filters[0] != r.name.to_lowercase())")
mut("c20-filter-case-sensitive", "C20", "src/cli/config/parser.rs",
    "entry_rules.iter().find(|r| r.name.to_lowercase() == rule_str.to_lowercase())", "entry_rules.iter().find(|r| r.name == rule_str)")
mut("c20-cache-stores-first-stage", "C20", "src/cli/seq.rs",
    "        seq_cache.insert(seq.tag.clone(), trace.last().unwrap().clone());", "        seq_cache.insert(seq.tag.clone(), trace.first().unwrap().clone());")
mut("c20-no-separator-between-word-files", "C20", "src/cli/seq.rs",
    "            let (mut w_file, _) = parse_wsca(&util::validate_or_get_path(Some(&wp), &[WORD_FILE_EXT, \"txt\"], \"word\")?)?;\n            if !words.is_empty() {\n                words.push(\"\".to_string());\n            }",
    "            let (mut w_file, _) = parse_wsca(&util::validate_or_get_path(Some(&wp), &[WORD_FILE_EXT, \"txt\"], \"word\")?)?;")
mut("c20-output-all-off-by-one", "C20", "src/cli/seq.rs",
    "let content = trace[seq+1].join(\"\\n\");", "let content = trace[seq].join(\"\\n\");")
mut("c20-loop-detection-self-only", "C20", "src/cli/config/parser.rs",
    "            if !set.insert(from.to_string()) {\n                return true\n            }\n            head = conf.iter().find(|c| c.tag == *from).unwrap()",
    "            if *from == head.tag {\n                return true\n            }\n            if !set.insert(from.to_string()) {\n                return false\n            }\n            head = conf.iter().find(|c| c.tag == *from).unwrap()")
mut("c20-stage-order-reversed", "C20", "src/cli/seq.rs",
    "    for (i, entry) in seq.entries.iter().enumerate() {\n        files.push(entry.name.clone());",
    "    for (i, entry) in seq.entries.iter().rev().enumerate() {\n        files.push(entry.name.clone());")
mut("c20-export-history-drops-parent-rules", "C20", "src/cli/seq.rs",
    "        let mut rules = get_all_rules(rule_seqs, seq)?;\n", "        let _ = get_all_rules(rule_seqs, seq)?;\n        let mut rules: Vec<RuleGroup> = vec![];\n")

# ---------------- behaviour changes that do NOT break a property: the checks must stay quiet
BENIGN = set()
def benign(name, prop, file, old, new):
    M[name] = (prop, file, old, new); BENIGN.add(name)
benign("benign-run-exits-1-on-library-error", "C19", "src/cli/run.rs",
    "            util::print_asca_errors(err, &words, &rules, &into, &from); \n            Ok(())",
    "            util::print_asca_errors(err, &words, &rules, &into, &from); \n            Err(io::Error::other(\"the rules could not be applied\"))")
benign("benign-seq-exits-1-when-a-tag-fails", "C20", "src/cli/seq.rs",
    "        for seq in &config {\n            handle_sequence(&config, &mut seq_cache, &dir_path, &words_path, seq, &flags)?;\n        }\n        Ok(())",
    "        let mut failed = false;\n        for seq in &config {\n            handle_sequence(&config, &mut seq_cache, &dir_path, &words_path, seq, &flags)?;\n            if !seq_cache.contains_key(&seq.tag) { failed = true; }\n        }\n        if failed { return Err(io::Error::other(\"one or more sequences failed\")) }\n        Ok(())")

def run(cmd, **kw):
    return subprocess.run(cmd, shell=True, capture_output=True, text=True, **kw)

def main():
    names = sys.argv[1:] or list(M)
    assert run(f"git -C {REPO} status --porcelain").stdout.strip() == "", "/repo working tree is not clean"
    rows = []
    for n in names:
        prop, file, old, new = M[n]
        p = os.path.join(REPO, file)
        s = open(p).read()
        if old not in s:
            rows.append((n, prop, "ANCHOR-NOT-FOUND", 0)); continue
        open(p, "w").write(s.replace(old, new, 1))
        try:
            t = time.time()
            b = run(f"cd {REPO} && CARGO_NET_OFFLINE=true cargo test --workspace --offline 2>&1 | grep -E '^test result|error' | head -3")
            tests_ok = "144 passed; 0 failed" in b.stdout
            r = run(f"cd /verif && VERIF_NO_EVIDENCE=1 ./check {prop} quick")
            viol = [l for l in r.stdout.splitlines() if l.startswith("VIOLATION")]
            clause = [l for l in r.stdout.splitlines() if l.startswith("clause ")]
            if n in BENIGN:
                status = "QUIET" if r.returncode == 0 and not viol else "FALSE-ALARM"
            else:
                status = "CAUGHT" if r.returncode == 1 and viol else ("MISSED" if r.returncode == 0 else f"EXIT{r.returncode}")
            rows.append((n, prop, status + ("" if tests_ok else " (tests fail/compile error!)"), time.time() - t))
            print(f"{n:45s} {prop} {rows[-1][2]:10s} {rows[-1][3]:5.0f}s  {clause[0][:110] if clause else ''}", flush=True)
            if r.returncode not in (0, 1):
                print(r.stdout[-800:])
        finally:
            run(f"git -C {REPO} checkout -- .")
    run("cd /verif && rm -f replays/*")
    bad = [r for r in rows if not (r[2].startswith("CAUGHT") or r[2].startswith("QUIET"))]
    print(f"{len(rows)-len(bad)}/{len(rows)} as they must be ({len(BENIGN & set(names))} of them behaviour changes that break no property and must pass quietly)")
    return 1 if bad else 0

sys.exit(main())
