#!/bin/bash
# Run the registered quick check against every seeded change in /verif/seeded/<id>/patch.diff:
# apply to /repo's working tree, run, undo straight afterwards.  Nothing is committed to /repo.
# usage: tools/seeded.sh [tier] [id ...]
set -u
tier="${1:-quick}"; shift || true
cd /verif
# default: apply to /repo's working tree and undo afterwards (what the brief prescribes).
# SEEDED_SCRATCH=1: work on a throw-away clone instead (for use while something else, e.g. a
# seed sweep, is reading /repo); the clone lives in /dev/shm and is removed at the end.
R=/repo
if [ "${SEEDED_SCRATCH:-0}" = 1 ]; then
  R=/dev/shm/seeded-repo.$$
  rm -rf "$R"; git clone -q /repo "$R" || exit 2
  export VERIF_REPO="$R"
  trap 'rm -rf "$R"; ln -sfn /repo /verif/target/repo-link' EXIT
fi
[ -z "$(git -C $R status --porcelain)" ] || { echo "$R not clean"; exit 2; }
ids=("$@"); [ ${#ids[@]} -gt 0 ] || ids=($(ls seeded))
for id in "${ids[@]}"; do
  prop="${id%%-*}"
  git -C $R apply "/verif/seeded/$id/patch.diff" || { echo "$id: patch does not apply"; continue; }
  t0=$(date +%s)
  VERIF_NO_EVIDENCE=1 ./check "$prop" "$tier" > "/dev/shm/seeded-$id.log" 2>&1; rc=$?
  git -C $R checkout -- .
  clause=$(grep -m1 '^clause ' "/dev/shm/seeded-$id.log" | cut -c1-150)
  echo "$id $prop $tier exit=$rc $(( $(date +%s) - t0 ))s  $clause"
done
