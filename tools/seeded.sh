#!/bin/bash
# Run the registered quick check against every seeded change in /verif/seeded/<id>/patch.diff:
# apply to /repo's working tree, run, undo straight afterwards.  Nothing is committed to /repo.
# usage: tools/seeded.sh [tier] [id ...]
set -u
tier="${1:-quick}"; shift || true
cd /verif
[ -z "$(git -C /repo status --porcelain)" ] || { echo "/repo not clean"; exit 2; }
ids=("$@"); [ ${#ids[@]} -gt 0 ] || ids=($(ls seeded))
for id in "${ids[@]}"; do
  prop="${id%%-*}"
  git -C /repo apply "/verif/seeded/$id/patch.diff" || { echo "$id: patch does not apply"; continue; }
  t0=$(date +%s)
  VERIF_NO_EVIDENCE=1 ./check "$prop" "$tier" > "/dev/shm/seeded-$id.log" 2>&1; rc=$?
  git -C /repo checkout -- .
  clause=$(grep -m1 '^clause ' "/dev/shm/seeded-$id.log" | cut -c1-150)
  echo "$id $prop $tier exit=$rc $(( $(date +%s) - t0 ))s  $clause"
done
