/*
 * libsimio.so -- the simulator's seam at the libc boundary (see DESIGN.md 2.1).
 *
 * Interposed by LD_PRELOAD into the real `asca` binary and into ascasim's
 * library instances.  It owns:
 *   - OS randomness: getrandom() returns a stream that is a pure function of
 *     DETRAND_SEED and the call counter, so std's RandomState hash keys (and
 *     with them every HashMap iteration order) are decided by the simulator.
 *   - file I/O on tracked paths (relative paths and paths under SIM_ROOT):
 *     every open/opendir/readdir/read/write/mkdir/stat is an *operation* with
 *     an index; SIM_PLAN="idx:KIND,..." injects a fault at an index.
 *   - directory order: the entries of a tracked directory are read completely,
 *     sorted by name and then permuted by SIM_DIRSEED before the process sees
 *     them, so the kernel's order contributes nothing.
 *   - process death: CRASH_BEFORE / CRASH_AFTER / TORN kinds _exit(137).
 *
 * Every operation is appended to the file named by SIM_TRACE (written with raw
 * syscalls so that tracing is never itself traced and never allocates).
 *
 * Environment:
 *   DETRAND_SEED  u64   hash-key stream (absent: getrandom is passed through)
 *   SIM_ROOT      path  absolute prefix of tracked files (absent: no tracking)
 *   SIM_PLAN      str   fault plan, e.g. "12:EIO,25:TORN"
 *   SIM_DIRSEED   u64   permutation seed for directory listings
 *   SIM_TRACE     path  trace file (outside SIM_ROOT)
 */
#define _GNU_SOURCE
#include <dirent.h>
#include <dlfcn.h>
#include <errno.h>
#include <fcntl.h>
#include <stdarg.h>
#include <stdint.h>
#include <stdio.h>
#include <stdlib.h>
#include <string.h>
#include <sys/stat.h>
#include <sys/syscall.h>
#include <sys/types.h>
#include <unistd.h>

/* ---------- configuration ---------- */

enum kind {
    K_NONE = 0, K_EIO, K_EACCES, K_EMFILE, K_ENOSPC, K_EINTR, K_SHORT, K_SHORT1,
    K_CRASH_BEFORE, K_CRASH_AFTER, K_TORN, K_ENOENT, K__N
};
static const char *kind_name[K__N] = {
    "-", "EIO", "EACCES", "EMFILE", "ENOSPC", "EINTR", "SHORT", "SHORT1",
    "CRASH_BEFORE", "CRASH_AFTER", "TORN", "ENOENT"
};

#define MAX_PLAN 64
static struct { long idx; enum kind k; } plan[MAX_PLAN];
static int n_plan;

static int have_seed;
static uint64_t rand_seed;
static uint64_t rand_calls;
static uint64_t dir_seed;
static char root[512];
static size_t root_len;
static int trace_fd = -1;
static long op_counter;
static long faults_fired;
static size_t io_cap; /* SIM_IOCAP: every tracked read/write transfers at most this many bytes */
static int inited;

#define MAX_FD 4096
static unsigned char fd_tracked[MAX_FD];

/* ---------- real functions ---------- */

static int (*real_open64)(const char *, int, ...);
static int (*real_open)(const char *, int, ...);
static ssize_t (*real_read)(int, void *, size_t);
static ssize_t (*real_write)(int, const void *, size_t);
static int (*real_close)(int);
static int (*real_mkdir)(const char *, mode_t);
static DIR *(*real_opendir)(const char *);
static struct dirent64 *(*real_readdir64)(DIR *);
static int (*real_closedir)(DIR *);
static ssize_t (*real_getrandom)(void *, size_t, unsigned int);
static int (*real_stat64)(const char *, struct stat64 *);
static int (*real_statx)(int, const char *, int, unsigned int, void *);

/* ---------- helpers ---------- */

static uint64_t splitmix(uint64_t *s)
{
    uint64_t z = (*s += 0x9E3779B97F4A7C15ULL);
    z = (z ^ (z >> 30)) * 0xBF58476D1CE4E5B9ULL;
    z = (z ^ (z >> 27)) * 0x94D049BB133111EBULL;
    return z ^ (z >> 31);
}

static void raw_write(int fd, const char *buf, size_t n)
{
    while (n > 0) {
        long r = syscall(SYS_write, fd, buf, n);
        if (r <= 0) return;
        buf += r; n -= (size_t)r;
    }
}

static void trace(const char *fmt, ...)
{
    if (trace_fd < 0) return;
    char buf[1024];
    va_list ap;
    va_start(ap, fmt);
    int n = vsnprintf(buf, sizeof buf, fmt, ap);
    va_end(ap);
    if (n < 0) return;
    if ((size_t)n >= sizeof buf) n = sizeof buf - 1;
    raw_write(trace_fd, buf, (size_t)n);
}

static enum kind parse_kind(const char *s, size_t n)
{
    for (int k = 1; k < K__N; k++)
        if (strlen(kind_name[k]) == n && strncmp(kind_name[k], s, n) == 0) return (enum kind)k;
    return K_NONE;
}

static void sim_init(void)
{
    if (inited) return;
    inited = 1;
    real_open64 = dlsym(RTLD_NEXT, "open64");
    real_open = dlsym(RTLD_NEXT, "open");
    real_read = dlsym(RTLD_NEXT, "read");
    real_write = dlsym(RTLD_NEXT, "write");
    real_close = dlsym(RTLD_NEXT, "close");
    real_mkdir = dlsym(RTLD_NEXT, "mkdir");
    real_opendir = dlsym(RTLD_NEXT, "opendir");
    real_readdir64 = dlsym(RTLD_NEXT, "readdir64");
    real_closedir = dlsym(RTLD_NEXT, "closedir");
    real_getrandom = dlsym(RTLD_NEXT, "getrandom");
    real_stat64 = dlsym(RTLD_NEXT, "stat64");
    real_statx = dlsym(RTLD_NEXT, "statx");

    const char *e;
    if ((e = getenv("DETRAND_SEED")) && *e) { have_seed = 1; rand_seed = strtoull(e, NULL, 10); }
    if ((e = getenv("SIM_DIRSEED")) && *e) dir_seed = strtoull(e, NULL, 10);
    if ((e = getenv("SIM_IOCAP")) && *e) io_cap = (size_t)strtoull(e, NULL, 10);
    if ((e = getenv("SIM_ROOT")) && *e && strlen(e) < sizeof root) { strcpy(root, e); root_len = strlen(root); }
    if ((e = getenv("SIM_TRACE")) && *e)
        trace_fd = (int)syscall(SYS_open, e, O_WRONLY | O_CREAT | O_APPEND | O_CLOEXEC, 0644);
    if ((e = getenv("SIM_PLAN")) && *e) {
        const char *p = e;
        while (*p && n_plan < MAX_PLAN) {
            char *end;
            long idx = strtol(p, &end, 10);
            if (end == p || *end != ':') break;
            p = end + 1;
            const char *q = p;
            while (*q && *q != ',') q++;
            enum kind k = parse_kind(p, (size_t)(q - p));
            if (k != K_NONE) { plan[n_plan].idx = idx; plan[n_plan].k = k; n_plan++; }
            p = *q ? q + 1 : q;
        }
    }
    /* raise the trace fd out of the way so that fd numbers seen by the process
       under test do not depend on whether tracing is on */
    if (trace_fd >= 0 && trace_fd < 200) {
        int nfd = (int)syscall(SYS_fcntl, trace_fd, F_DUPFD_CLOEXEC, 200);
        if (nfd >= 0) { syscall(SYS_close, trace_fd); trace_fd = nfd; }
    }
}

__attribute__((constructor)) static void sim_ctor(void) { sim_init(); }

static void sim_end(const char *why)
{
    trace("END %s ops=%ld faults=%ld getrandom=%lu\n", why, op_counter, faults_fired,
          (unsigned long)rand_calls);
}

__attribute__((destructor)) static void sim_dtor(void) { sim_end("exit"); }

__attribute__((noreturn)) static void crash(void)
{
    sim_end("crash");
    syscall(SYS_exit_group, 137);
    for (;;) {}
}

static int is_tracked_path(const char *p)
{
    if (!root_len || !p) return 0;
    if (p[0] != '/') return 1;
    return strncmp(p, root, root_len) == 0 && (p[root_len] == '/' || p[root_len] == 0);
}

static int is_tracked_fd(int fd) { return fd >= 0 && fd < MAX_FD && fd_tracked[fd]; }

/* claim the next operation index and look up the planned fault */
static enum kind next_op(long *idx_out)
{
    long idx = op_counter++;
    *idx_out = idx;
    for (int i = 0; i < n_plan; i++)
        if (plan[i].idx == idx) return plan[i].k;
    return K_NONE;
}

static const char *rel(const char *p)
{
    if (p[0] == '/' && root_len && strncmp(p, root, root_len) == 0) {
        p += root_len;
        while (*p == '/') p++;
        return *p ? p : ".";
    }
    return p;
}

/* ---------- getrandom ---------- */

ssize_t getrandom(void *buf, size_t len, unsigned int flags)
{
    sim_init();
    if (!have_seed) {
        if (real_getrandom) return real_getrandom(buf, len, flags);
        return syscall(SYS_getrandom, buf, len, flags);
    }
    uint64_t call = __atomic_fetch_add(&rand_calls, 1, __ATOMIC_SEQ_CST);
    uint64_t s = rand_seed ^ (0xD1B54A32D192ED03ULL * (call + 1));
    unsigned char *o = buf;
    size_t i = 0;
    while (i < len) {
        uint64_t v = splitmix(&s);
        for (int b = 0; b < 8 && i < len; b++, i++) o[i] = (unsigned char)(v >> (8 * b));
    }
    trace("R getrandom call=%lu len=%lu\n", (unsigned long)call, (unsigned long)len);
    return (ssize_t)len;
}

/* ---------- open ---------- */

static int do_open(int (*realfn)(const char *, int, ...), const char *path, int flags, mode_t mode)
{
    sim_init();
    if (!is_tracked_path(path)) return realfn(path, flags, mode);
    long idx;
    enum kind k = next_op(&idx);
    int wr = (flags & O_ACCMODE) != O_RDONLY;
    const char *opn = wr ? "openw" : "open";
    int err = 0;
    switch (k) {
    case K_CRASH_BEFORE: trace("%ld %s %s - - CRASH_BEFORE\n", idx, opn, rel(path)); faults_fired++; crash();
    case K_EIO: err = EIO; break;
    case K_EACCES: err = EACCES; break;
    case K_EMFILE: err = EMFILE; break;
    case K_EINTR: err = EINTR; break;
    case K_ENOENT: err = ENOENT; break;
    case K_ENOSPC: if (flags & O_CREAT) err = ENOSPC; break;
    default: break;
    }
    if (err) {
        faults_fired++;
        trace("%ld %s %s - -1 %s\n", idx, opn, rel(path), kind_name[k]);
        errno = err;
        return -1;
    }
    int fd = realfn(path, flags, mode);
    int e = errno;
    if (fd >= 0 && fd < MAX_FD) fd_tracked[fd] = wr ? 2 : 1;
    trace("%ld %s %s - %d %s\n", idx, opn, rel(path), fd < 0 ? -1 : 0,
          k == K_CRASH_AFTER ? "CRASH_AFTER" : (k == K_NONE ? "-" : "NA"));
    if (k == K_CRASH_AFTER) { faults_fired++; crash(); }
    errno = e;
    return fd;
}

int open64(const char *path, int flags, ...)
{
    mode_t mode = 0;
    if (flags & (O_CREAT | O_TMPFILE)) { va_list ap; va_start(ap, flags); mode = va_arg(ap, mode_t); va_end(ap); }
    sim_init();
    return do_open(real_open64, path, flags, mode);
}

int open(const char *path, int flags, ...)
{
    mode_t mode = 0;
    if (flags & (O_CREAT | O_TMPFILE)) { va_list ap; va_start(ap, flags); mode = va_arg(ap, mode_t); va_end(ap); }
    sim_init();
    return do_open(real_open, path, flags, mode);
}

int close(int fd)
{
    sim_init();
    if (fd >= 0 && fd < MAX_FD) fd_tracked[fd] = 0;
    return real_close(fd);
}

/* ---------- read / write ---------- */

ssize_t read(int fd, void *buf, size_t count)
{
    sim_init();
    if (!is_tracked_fd(fd)) return real_read(fd, buf, count);
    long idx;
    enum kind k = next_op(&idx);
    int err = 0;
    size_t want = count;
    switch (k) {
    case K_CRASH_BEFORE: trace("%ld read fd %lu - CRASH_BEFORE\n", idx, (unsigned long)count); faults_fired++; crash();
    case K_EIO: err = EIO; break;
    case K_EINTR: err = EINTR; break;
    case K_SHORT: if (count > 3) want = 3; break;
    case K_SHORT1: if (count > 1) want = 1; break;
    default: break;
    }
    if (io_cap && want > io_cap) want = io_cap;
    if (err) {
        faults_fired++;
        trace("%ld read fd %lu -1 %s\n", idx, (unsigned long)count, kind_name[k]);
        errno = err;
        return -1;
    }
    ssize_t r = real_read(fd, buf, want);
    int e = errno;
    const char *f = "-";
    if (k == K_SHORT || k == K_SHORT1) { f = kind_name[k]; if (r > 0) faults_fired++; }
    else if (k == K_CRASH_AFTER) f = "CRASH_AFTER";
    else if (k != K_NONE) f = "NA";
    trace("%ld read fd %lu %ld %s\n", idx, (unsigned long)count, (long)r, f);
    if (k == K_CRASH_AFTER) { faults_fired++; crash(); }
    errno = e;
    return r;
}

ssize_t write(int fd, const void *buf, size_t count)
{
    sim_init();
    if (!is_tracked_fd(fd)) return real_write(fd, buf, count);
    long idx;
    enum kind k = next_op(&idx);
    int err = 0;
    size_t want = count;
    switch (k) {
    case K_CRASH_BEFORE: trace("%ld write fd %lu - CRASH_BEFORE\n", idx, (unsigned long)count); faults_fired++; crash();
    case K_EIO: err = EIO; break;
    case K_ENOSPC: err = ENOSPC; break;
    case K_EINTR: err = EINTR; break;
    case K_SHORT: case K_TORN: if (count > 1) want = (count + 1) / 2; break;
    case K_SHORT1: if (count > 1) want = 1; break;
    default: break;
    }
    if (io_cap && want > io_cap) want = io_cap;
    if (err) {
        faults_fired++;
        trace("%ld write fd %lu -1 %s\n", idx, (unsigned long)count, kind_name[k]);
        errno = err;
        return -1;
    }
    ssize_t r = real_write(fd, buf, want);
    int e = errno;
    const char *f = "-";
    if (k == K_SHORT || k == K_SHORT1 || k == K_TORN) { f = kind_name[k]; if (want < count) faults_fired++; }
    else if (k == K_CRASH_AFTER) f = "CRASH_AFTER";
    else if (k != K_NONE) f = "NA";
    trace("%ld write fd %lu %ld %s\n", idx, (unsigned long)count, (long)r, f);
    if (k == K_TORN) { if (want >= count) faults_fired++; crash(); }
    if (k == K_CRASH_AFTER) { faults_fired++; crash(); }
    errno = e;
    return r;
}

/* ---------- mkdir ---------- */

int mkdir(const char *path, mode_t mode)
{
    sim_init();
    if (!is_tracked_path(path)) return real_mkdir(path, mode);
    long idx;
    enum kind k = next_op(&idx);
    int err = 0;
    switch (k) {
    case K_CRASH_BEFORE: trace("%ld mkdir %s - - CRASH_BEFORE\n", idx, rel(path)); faults_fired++; crash();
    case K_EIO: err = EIO; break;
    case K_EACCES: err = EACCES; break;
    case K_ENOSPC: err = ENOSPC; break;
    default: break;
    }
    if (err) {
        faults_fired++;
        trace("%ld mkdir %s - -1 %s\n", idx, rel(path), kind_name[k]);
        errno = err;
        return -1;
    }
    int r = real_mkdir(path, mode);
    int e = errno;
    trace("%ld mkdir %s - %d %s\n", idx, rel(path), r,
          k == K_CRASH_AFTER ? "CRASH_AFTER" : (k == K_NONE ? "-" : "NA"));
    if (k == K_CRASH_AFTER) { faults_fired++; crash(); }
    errno = e;
    return r;
}

/* ---------- stat (an operation, so that crashes can land on it; no error kinds) ---------- */

int statx(int dirfd, const char *path, int flags, unsigned int mask, struct statx *buf)
{
    sim_init();
    if (!real_statx) { errno = ENOSYS; return -1; }
    if (!is_tracked_path(path) || !*path) return real_statx(dirfd, path, flags, mask, buf);
    long idx;
    enum kind k = next_op(&idx);
    if (k == K_CRASH_BEFORE) { trace("%ld stat %s - - CRASH_BEFORE\n", idx, rel(path)); faults_fired++; crash(); }
    int r = real_statx(dirfd, path, flags, mask, buf);
    int e = errno;
    trace("%ld stat %s - %d %s\n", idx, rel(path), r, k == K_NONE ? "-" : "NA");
    errno = e;
    return r;
}

/* ---------- directories ---------- */

#define MAX_DIRS 16
#define MAX_ENTS 512
static struct simdir {
    DIR *d;
    int loaded, n, pos;
    char path[256];
    struct dirent64 *ents;
} dirs[MAX_DIRS];

static struct simdir *find_dir(DIR *d)
{
    for (int i = 0; i < MAX_DIRS; i++) if (dirs[i].d == d) return &dirs[i];
    return NULL;
}

static int ent_cmp(const void *a, const void *b)
{
    return strcmp(((const struct dirent64 *)a)->d_name, ((const struct dirent64 *)b)->d_name);
}

DIR *opendir(const char *path)
{
    sim_init();
    if (!is_tracked_path(path)) return real_opendir(path);
    long idx;
    enum kind k = next_op(&idx);
    int err = 0;
    switch (k) {
    case K_CRASH_BEFORE: trace("%ld opendir %s - - CRASH_BEFORE\n", idx, rel(path)); faults_fired++; crash();
    case K_EIO: err = EIO; break;
    case K_EACCES: err = EACCES; break;
    case K_EMFILE: err = EMFILE; break;
    default: break;
    }
    if (err) {
        faults_fired++;
        trace("%ld opendir %s - -1 %s\n", idx, rel(path), kind_name[k]);
        errno = err;
        return NULL;
    }
    DIR *d = real_opendir(path);
    int e = errno;
    if (d) {
        struct simdir *s = find_dir(NULL);
        if (s) { memset(s, 0, sizeof *s); s->d = d; snprintf(s->path, sizeof s->path, "%s", rel(path)); }
    }
    trace("%ld opendir %s - %d %s\n", idx, rel(path), d ? 0 : -1, k == K_NONE ? "-" : "NA");
    errno = e;
    return d;
}

static void load_dir(struct simdir *s)
{
    s->loaded = 1;
    s->ents = malloc(sizeof(struct dirent64) * MAX_ENTS);
    if (!s->ents) return;
    struct dirent64 *e;
    while (s->n < MAX_ENTS && (e = real_readdir64(s->d)) != NULL) s->ents[s->n++] = *e;
    qsort(s->ents, (size_t)s->n, sizeof(struct dirent64), ent_cmp);
    /* Fisher-Yates with a stream derived from SIM_DIRSEED and the directory name */
    uint64_t st = dir_seed;
    for (const char *p = s->path; *p; p++) st = (st ^ (unsigned char)*p) * 0x100000001B3ULL;
    if (dir_seed != 0)
        for (int i = s->n - 1; i > 0; i--) {
            int j = (int)(splitmix(&st) % (uint64_t)(i + 1));
            struct dirent64 t = s->ents[i]; s->ents[i] = s->ents[j]; s->ents[j] = t;
        }
}

struct dirent64 *readdir64(DIR *d)
{
    sim_init();
    struct simdir *s = find_dir(d);
    if (!s) return real_readdir64(d);
    if (!s->loaded) load_dir(s);
    long idx;
    enum kind k = next_op(&idx);
    if (k == K_CRASH_BEFORE) { trace("%ld readdir %s - - CRASH_BEFORE\n", idx, s->path); faults_fired++; crash(); }
    if (k == K_EIO) {
        faults_fired++;
        trace("%ld readdir %s - -1 EIO\n", idx, s->path);
        errno = EIO;
        return NULL;
    }
    if (!s->ents || s->pos >= s->n) {
        trace("%ld readdir %s - 0 %s\n", idx, s->path, k == K_NONE ? "-" : "NA");
        return NULL; /* errno untouched: end of stream */
    }
    struct dirent64 *e = &s->ents[s->pos++];
    trace("%ld readdir %s %s 1 %s\n", idx, s->path, e->d_name, k == K_NONE ? "-" : "NA");
    return e;
}

int closedir(DIR *d)
{
    sim_init();
    struct simdir *s = find_dir(d);
    if (s) { free(s->ents); memset(s, 0, sizeof *s); }
    return real_closedir(d);
}
