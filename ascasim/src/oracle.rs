//! The reference for C19/C20: `asca::run` evaluated in separate long-lived oracle
//! processes (one per hash-key set).  The engines compare the command line against
//! *the library's answer on the intended structure*; they never parse the files with
//! the code under test.
//!
//! Immunity to library nondeterminism (DESIGN.md 4.2): every request is evaluated under
//! three key sets; if they disagree the answer is `Unstable` and the scenario is not
//! judged (that would be C01's finding, not C19's/C20's).

use crate::gen::harness_error;
use crate::instance::Group;
use crate::proc;
use asca::ASCAError;
use serde::{Deserialize, Serialize};
use std::io::{BufRead, BufReader, Write};
use std::process::{Child, ChildStdin, Command, Stdio};
use std::sync::mpsc;
use std::time::Duration;

#[derive(Serialize, Deserialize, Clone, Debug, PartialEq, Eq)]
pub struct Req {
    pub rules: Vec<Group>,
    pub words: Vec<String>,
    pub into: Vec<String>,
    pub from: Vec<String>,
}

#[derive(Serialize, Deserialize, Clone, Debug, PartialEq, Eq)]
pub enum Ans {
    /// the rendered words
    Ok(Vec<String>),
    /// the library's own formatter applied to the error and the same inputs
    Err(String),
    Panic,
    Hang,
    Unstable,
}

/// `ascasim oracle`: one JSON request per line on stdin, one JSON answer per line on stdout.
pub fn main_oracle() -> i32 {
    std::panic::set_hook(Box::new(|_| {}));
    let stdin = std::io::stdin();
    let stdout = std::io::stdout();
    let mut out = stdout.lock();
    for line in stdin.lock().lines() {
        let Ok(line) = line else { break };
        if line.trim().is_empty() {
            continue;
        }
        let req: Req = match serde_json::from_str(&line) {
            Ok(r) => r,
            Err(e) => {
                eprintln!("oracle: bad request: {e}");
                return 2;
            }
        };
        let ans = std::panic::catch_unwind(|| answer(&req)).unwrap_or(Ans::Panic);
        let _ = writeln!(out, "{}", serde_json::to_string(&ans).unwrap());
        let _ = out.flush();
    }
    0
}

fn answer(req: &Req) -> Ans {
    let rules: Vec<asca::RuleGroup> = req.rules.iter().map(|g| g.to_asca()).collect();
    match asca::run(&rules, &req.words, &req.into, &req.from) {
        Ok(v) => Ans::Ok(v),
        Err(err) => Ans::Err(match err {
            asca::Error::WordSyn(e) => e.format_word_error(&req.words),
            asca::Error::WordRun(e) => e.format_word_error(&req.words),
            asca::Error::AliasSyn(e) => e.format_alias_error(&req.into, &req.from),
            asca::Error::AliasRun(e) => e.format_alias_error(&req.into, &req.from),
            asca::Error::RuleSyn(e) => e.format_rule_error(&rules),
            asca::Error::RuleRun(e) => e.format_rule_error(&rules),
        }),
    }
}

struct Server {
    child: Child,
    stdin: ChildStdin,
    rx: mpsc::Receiver<String>,
    detrand: u64,
}

impl Server {
    fn spawn(detrand: u64) -> Server {
        let exe = proc::self_exe();
        let mut cmd = Command::new(exe);
        cmd.arg("oracle").env_clear();
        for (k, v) in proc::sim_env(detrand) {
            cmd.env(k, v);
        }
        cmd.stdin(Stdio::piped()).stdout(Stdio::piped()).stderr(Stdio::null());
        let mut child = cmd.spawn().unwrap_or_else(|e| harness_error(&format!("spawn oracle: {e}")));
        let stdin = child.stdin.take().unwrap();
        let stdout = child.stdout.take().unwrap();
        let (tx, rx) = mpsc::channel();
        std::thread::spawn(move || {
            let r = BufReader::new(stdout);
            for line in r.lines() {
                match line {
                    Ok(l) => {
                        if tx.send(l).is_err() {
                            break;
                        }
                    }
                    Err(_) => break,
                }
            }
        });
        Server { child, stdin, rx, detrand }
    }
    fn ask(&mut self, line: &str) -> Ans {
        if writeln!(self.stdin, "{line}").and_then(|_| self.stdin.flush()).is_err() {
            self.respawn();
            return Ans::Panic; // the server died on the previous request's aftermath (abort); treat as crash
        }
        match self.rx.recv_timeout(Duration::from_secs(8)) {
            Ok(l) => serde_json::from_str(&l).unwrap_or(Ans::Panic),
            Err(mpsc::RecvTimeoutError::Timeout) => {
                self.respawn();
                Ans::Hang
            }
            Err(_) => {
                // died (stack overflow / abort)
                self.respawn();
                Ans::Panic
            }
        }
    }
    fn respawn(&mut self) {
        let _ = self.child.kill();
        let _ = self.child.wait();
        *self = Server::spawn(self.detrand);
    }
}

impl Drop for Server {
    fn drop(&mut self) {
        let _ = self.child.kill();
        let _ = self.child.wait();
    }
}

/// One client per worker thread; three servers under three key sets.
pub struct Oracle {
    servers: Vec<Server>,
    /// answers already obtained in this worker (the same project is queried again for every
    /// fault placement and every history step)
    cache: std::collections::BTreeMap<String, Ans>,
    pub queries: u64,
    pub unstable: u64,
}

impl Oracle {
    pub fn new(key_base: u64) -> Oracle {
        let servers = (0..3).map(|i| Server::spawn(crate::prng::mix(key_base.wrapping_add(i * 7919)) | 1)).collect();
        Oracle { servers, cache: Default::default(), queries: 0, unstable: 0 }
    }
    pub fn run(&mut self, req: &Req) -> Ans {
        self.queries += 1;
        let line = serde_json::to_string(req).unwrap();
        if let Some(a) = self.cache.get(&line) {
            return a.clone();
        }
        let t_dbg = std::time::Instant::now();
        let a: Vec<Ans> = self.servers.iter_mut().map(|s| s.ask(&line)).collect();
        if t_dbg.elapsed().as_millis() > 150 && std::env::var("VERIF_DEBUG").is_ok() {
            eprintln!("DEBUG slow oracle query {} ms: {}", t_dbg.elapsed().as_millis(), &line.chars().take(600).collect::<String>());
        }
        let ans = if a[0] == a[1] && a[1] == a[2] {
            a[0].clone()
        } else {
            self.unstable += 1;
            Ans::Unstable
        };
        if self.cache.len() > 4000 {
            self.cache.clear();
        }
        self.cache.insert(line, ans.clone());
        ans
    }
}
