//! Violations, known findings, replay files and evidence files.

use crate::gen::{harness_error, verif_dir};
use serde_json::{json, Value};
use std::collections::BTreeMap;

#[derive(Clone, Debug)]
pub struct Violation {
    pub property: String,
    /// which oracle clause failed, e.g. "cross-instance", "repeat", "perm", "run-stdout"
    pub clause: String,
    /// stable signature of the minimised case (used to match KNOWN_FINDINGS entries)
    pub signature: String,
    /// human-readable expected-vs-observed
    pub detail: String,
    /// fully explicit replay document
    pub replay: Value,
}

pub struct Known {
    /// (property, key) of `known:` lines
    pub known: Vec<(String, String, String)>,
}

impl Known {
    pub fn load() -> Known {
        let p = format!("{}/KNOWN_FINDINGS.txt", verif_dir());
        let mut known = Vec::new();
        if let Ok(txt) = std::fs::read_to_string(&p) {
            for line in txt.lines() {
                let line = line.trim();
                if let Some(rest) = line.strip_prefix("known:") {
                    // known: property=C19 key=<clause>:<signature> <free text>
                    let mut prop = String::new();
                    let mut key = String::new();
                    let mut text = Vec::new();
                    for tok in rest.split_whitespace() {
                        if let Some(v) = tok.strip_prefix("property=") {
                            prop = v.to_string();
                        } else if let Some(v) = tok.strip_prefix("key=") {
                            key = v.to_string();
                        } else {
                            text.push(tok);
                        }
                    }
                    if !prop.is_empty() && !key.is_empty() {
                        known.push((prop, key, text.join(" ")));
                    }
                }
                // `fixed:` lines suppress nothing
            }
        }
        Known { known }
    }
    pub fn matches(&self, v: &Violation) -> Option<String> {
        let key = format!("{}:{}", v.clause, v.signature);
        self.known.iter().find(|(p, k, _)| *p == v.property && *k == key).map(|(_, _, t)| t.clone())
    }
}

pub fn write_replay(v: &Violation) -> String {
    let dir = format!("{}/replays", verif_dir());
    let _ = std::fs::create_dir_all(&dir);
    let body = serde_json::to_string_pretty(&v.replay).unwrap();
    let dig = crate::prng::digest_str(&body);
    let path = format!("{dir}/{}-{:016x}.json", v.property, dig);
    if let Err(e) = std::fs::write(&path, body) {
        harness_error(&format!("cannot write replay {path}: {e}"));
    }
    path
}

pub struct Evidence {
    pub property: String,
    pub tier: String,
    pub seed: u64,
    pub level: String,
    pub evaluations: u64,
    pub distinct_nontrivial: u64,
    pub rule: String,
    pub samples: Vec<Value>,
    pub exhaustive: bool,
    pub extra: BTreeMap<String, Value>,
    pub assumptions: Vec<String>,
    pub wall_s: f64,
    pub violations: u64,
}

impl Evidence {
    pub fn write(&self) {
        if std::env::var("VERIF_NO_EVIDENCE").is_ok() {
            return;
        }
        let dir = format!("{}/evidence", verif_dir());
        let _ = std::fs::create_dir_all(&dir);
        let mut cov = serde_json::Map::new();
        cov.insert("evaluations".into(), json!(self.evaluations));
        cov.insert("distinct_nontrivial".into(), json!(self.distinct_nontrivial));
        cov.insert("rule".into(), json!(self.rule));
        cov.insert("samples".into(), json!(self.samples));
        cov.insert("exhaustive".into(), json!(self.exhaustive));
        for (k, v) in &self.extra {
            cov.insert(k.clone(), v.clone());
        }
        let doc = json!({
            "property_id": self.property,
            "tier": self.tier,
            "seed": self.seed,
            "level": self.level,
            "coverage": Value::Object(cov),
            "assumptions": self.assumptions,
            "wall_s": self.wall_s,
            "violations": self.violations,
        });
        let path = format!("{dir}/{}.json", self.property);
        if let Err(e) = std::fs::write(&path, serde_json::to_string_pretty(&doc).unwrap()) {
            harness_error(&format!("cannot write evidence {path}: {e}"));
        }
    }
}

pub fn real_vs_stub() -> Value {
    json!({
        "real": ["all of /repo/src (library)", "src/main.rs and src/cli/** via the release binary", "clap argument parsing",
                 "Rust std I/O incl. its EINTR/short-read/short-write retry logic", "glibc wrappers", "tmpfs as byte store"],
        "simulated": ["OS randomness (getrandom -> std RandomState hash keys)", "result of each open/opendir/readdir/read/write/mkdir when a fault is scheduled",
                      "directory enumeration order", "stdin contents", "environment (cleared)", "working directory", "process death (_exit inside the interposer)",
                      "which caller thread runs next / initialises the lazy statics (library instances)"],
        "not_run": ["run_wasm / wasm-bindgen entry", "Windows LINE_ENDING", "shell completion generator"]
    })
}

/// Final reporting shared by all engines. Returns the process exit code.
pub fn finish(property: &str, violations: Vec<Violation>, known: &Known) -> i32 {
    let mut code = 0;
    let mut seen_known: Vec<String> = Vec::new();
    let mut seen_sig: Vec<String> = Vec::new();
    for v in &violations {
        let sig = format!("{}:{}", v.clause, v.signature);
        if seen_sig.contains(&sig) {
            continue;
        }
        seen_sig.push(sig);
        if let Some(text) = known.matches(v) {
            let line = format!("KNOWN-FINDING: property={} {}:{} {}", v.property, v.clause, v.signature, text);
            if !seen_known.contains(&line) {
                println!("{line}");
                seen_known.push(line);
            }
        } else {
            let path = write_replay(v);
            println!("--- violation of {} ({}) ---\n{}", v.property, v.clause, v.detail);
            println!("  (key for KNOWN_FINDINGS.txt, should this turn out to be a genuine defect that is recorded rather than repaired: {}:{})", v.clause, v.signature);
            println!("VIOLATION property={} replay={}", v.property, path);
            code = 1;
        }
    }
    if code == 0 {
        if seen_known.is_empty() {
            println!("OK property={property} held on everything explored");
        } else {
            println!("OK property={property}: nothing violated on everything explored other than the {} listed known finding(s) above", seen_known.len());
        }
    }
    code
}
