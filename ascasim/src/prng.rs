//! One integer decides everything: every stream used anywhere in the simulator is
//! `Rng::derive(VERIF_SEED, domain, index)`.  No clock, no OS randomness, no hash
//! iteration is ever consulted by the driver.

#[derive(Clone, Debug)]
pub struct Rng {
    s: u64,
}

pub fn mix(mut z: u64) -> u64 {
    z = z.wrapping_add(0x9E3779B97F4A7C15);
    z = (z ^ (z >> 30)).wrapping_mul(0xBF58476D1CE4E5B9);
    z = (z ^ (z >> 27)).wrapping_mul(0x94D049BB133111EB);
    z ^ (z >> 31)
}

/// stream domains
pub const D_GEN: u64 = 1;
pub const D_KEYS: u64 = 2;
pub const D_SCHED: u64 = 3;
pub const D_FAULT: u64 = 4;
pub const D_DIR: u64 = 5;
pub const D_MISC: u64 = 6;

impl Rng {
    pub fn new(seed: u64) -> Self {
        Rng { s: mix(seed ^ 0xA5A5_5A5A_1234_5678) }
    }
    pub fn derive(seed: u64, domain: u64, index: u64) -> Self {
        Rng { s: mix(mix(mix(seed) ^ domain.wrapping_mul(0xD6E8FEB86659FD93)) ^ index.wrapping_mul(0xCA5A826395121157)) }
    }
    pub fn next_u64(&mut self) -> u64 {
        self.s = self.s.wrapping_add(0x9E3779B97F4A7C15);
        let mut z = self.s;
        z = (z ^ (z >> 30)).wrapping_mul(0xBF58476D1CE4E5B9);
        z = (z ^ (z >> 27)).wrapping_mul(0x94D049BB133111EB);
        z ^ (z >> 31)
    }
    /// uniform in 0..n (n > 0)
    pub fn below(&mut self, n: usize) -> usize {
        debug_assert!(n > 0);
        (self.next_u64() % (n as u64)) as usize
    }
    pub fn range(&mut self, lo: usize, hi_incl: usize) -> usize {
        lo + self.below(hi_incl - lo + 1)
    }
    pub fn chance(&mut self, num: u32, den: u32) -> bool {
        (self.next_u64() % den as u64) < num as u64
    }
    pub fn pick<'a, T>(&mut self, v: &'a [T]) -> &'a T {
        &v[self.below(v.len())]
    }
    pub fn shuffle<T>(&mut self, v: &mut [T]) {
        for i in (1..v.len()).rev() {
            let j = self.below(i + 1);
            v.swap(i, j);
        }
    }
    pub fn perm(&mut self, n: usize) -> Vec<usize> {
        let mut p: Vec<usize> = (0..n).collect();
        self.shuffle(&mut p);
        p
    }
}

/// FNV-1a 64 digest, used for event-log and case digests
#[derive(Clone, Copy)]
pub struct Fnv(pub u64);
impl Fnv {
    pub fn new() -> Self {
        Fnv(0xcbf29ce484222325)
    }
    pub fn bytes(&mut self, b: &[u8]) {
        for &x in b {
            self.0 ^= x as u64;
            self.0 = self.0.wrapping_mul(0x100000001b3);
        }
    }
    pub fn str(&mut self, s: &str) {
        self.bytes(s.as_bytes());
        self.bytes(&[0xff]);
    }
    pub fn u64(&mut self, v: u64) {
        self.bytes(&v.to_le_bytes());
    }
}
pub fn digest_str(s: &str) -> u64 {
    let mut f = Fnv::new();
    f.str(s);
    f.0
}
