//! Scenario type and generator for engine c19 (DESIGN.md 4.2).

use crate::cli::{FaultClass, Model, Plan};
use crate::gen::{self, Data};
use crate::instance::Group;
use crate::prng::Rng;
use serde::{Deserialize, Serialize};
use std::collections::BTreeMap;

#[derive(Serialize, Deserialize, Clone, Debug, PartialEq, Eq)]
pub enum Meaning {
    Words(Vec<String>),
    Rules(Vec<Group>),
    Alias(Vec<String>, Vec<String>),
    Json(Model),
    Other,
}

#[derive(Serialize, Deserialize, Clone, Debug, PartialEq, Eq)]
pub enum Cmd {
    Run { rules: Option<String>, json: Option<String>, words: Option<String>, alias: Option<String>, output: Option<String>, compare: Option<String> },
    ConvAsca { words: Option<String>, rules: Option<String>, alias: Option<String>, output: Option<String> },
    ConvJson { path: Option<String>, words: Option<String>, rules: Option<String>, alias: Option<String> },
    /// not an asca invocation: the user edits a file (root-relative path, new text, new meaning)
    Edit { path: String, text: String, meaning: Meaning },
}

impl Cmd {
    pub fn argv(&self) -> Vec<String> {
        let mut a: Vec<String> = Vec::new();
        let opt = |a: &mut Vec<String>, flag: &str, v: &Option<String>| {
            if let Some(p) = v {
                a.push(flag.to_string());
                a.push(p.clone());
            }
        };
        match self {
            Cmd::Run { rules, json, words, alias, output, compare } => {
                a.push("run".into());
                opt(&mut a, "-r", rules);
                opt(&mut a, "-j", json);
                opt(&mut a, "-w", words);
                opt(&mut a, "-l", alias);
                opt(&mut a, "-o", output);
                opt(&mut a, "-c", compare);
            }
            Cmd::ConvAsca { words, rules, alias, output } => {
                a.push("conv".into());
                a.push("asca".into());
                opt(&mut a, "-w", words);
                opt(&mut a, "-r", rules);
                opt(&mut a, "-a", alias);
                opt(&mut a, "-o", output);
            }
            Cmd::Edit { path, .. } => {
                a.push("<edit>".into());
                a.push(path.clone());
            }
            Cmd::ConvJson { path, words, rules, alias } => {
                a.push("conv".into());
                a.push("json".into());
                opt(&mut a, "-p", path);
                opt(&mut a, "-w", words);
                opt(&mut a, "-r", rules);
                opt(&mut a, "-a", alias);
            }
        }
        a
    }
}

#[derive(Serialize, Deserialize, Clone, Debug, PartialEq, Eq)]
pub struct Inv {
    pub cmd: Cmd,
    /// cwd relative to the project root ("" = the root)
    pub cwd: String,
    pub answers: Vec<String>,
    pub detrand: u64,
    pub dirseed: u64,
    pub class: FaultClass,
    /// explicit plan; when `class != None` and the plan is empty it is drawn from the
    /// recorded trace with `fault_seed`
    pub plan: Plan,
    pub fault_seed: u64,
    /// after a hard fault / crash: repeat the invocation fault-free with overwrite confirmed
    pub recover: bool,
    /// when non-zero every read and write on a project file transfers at most this many bytes
    /// (a slow pipe, a network file system): in force for every execution of the invocation
    #[serde(default)]
    pub iocap: u32,
}

#[derive(Serialize, Deserialize, Clone, Debug, PartialEq, Eq)]
pub struct Scn {
    pub files: BTreeMap<String, String>,
    pub meaning: BTreeMap<String, Meaning>,
    pub dirs: Vec<String>,
    pub invs: Vec<Inv>,
}

// ------------------------------------------------------------------ text renderers with formatting knobs

pub struct Fmt {
    pub crlf: bool,
    pub indent: &'static str,
    pub blank_between_rules: bool,
    pub blank_between_groups: bool,
    pub trailing_newline: bool,
    pub word_comments: bool,
    pub space_after_at: bool,
}

impl Fmt {
    pub fn draw(r: &mut Rng) -> Fmt {
        Fmt {
            crlf: r.chance(1, 5),
            indent: *r.pick(&["    ", "\t", "", "  "]),
            blank_between_rules: r.chance(1, 3),
            blank_between_groups: r.chance(3, 4),
            trailing_newline: r.chance(2, 3),
            word_comments: r.chance(1, 2),
            space_after_at: r.chance(3, 4),
        }
    }
    fn nl(&self) -> &'static str {
        if self.crlf {
            "\r\n"
        } else {
            "\n"
        }
    }
}

pub fn render_rsca(groups: &[Group], f: &Fmt, r: &mut Rng) -> String {
    let nl = f.nl();
    let mut s = String::new();
    for (gi, g) in groups.iter().enumerate() {
        let prev_has_desc = gi > 0 && !groups[gi - 1].description.is_empty();
        let untitled = (gi == 0 || prev_has_desc) && g.name.is_empty() && g.description.is_empty() && !g.rule.is_empty();
        if !untitled {
            s.push('@');
            if f.space_after_at {
                s.push(' ');
            }
            s.push_str(&g.name);
            s.push_str(nl);
        }
        for (ri, rule) in g.rule.iter().enumerate() {
            if ri > 0 && f.blank_between_rules && r.chance(1, 2) {
                s.push_str(f.indent);
                s.push_str(nl);
            }
            s.push_str(f.indent);
            s.push_str(rule);
            s.push_str(nl);
        }
        if !g.description.is_empty() {
            for dl in g.description.split('\n') {
                s.push('#');
                if !dl.is_empty() {
                    s.push(' ');
                }
                s.push_str(dl);
                s.push_str(nl);
            }
        }
        if gi + 1 < groups.len() && f.blank_between_groups {
            s.push_str(nl);
        }
    }
    if !f.trailing_newline {
        while s.ends_with('\n') || s.ends_with('\r') {
            s.pop();
        }
    }
    s
}

pub fn render_wsca(words: &[String], f: &Fmt, r: &mut Rng) -> String {
    let nl = f.nl();
    let mut lines: Vec<String> = Vec::new();
    for w in words {
        if w.is_empty() {
            // a blank line, a line of blanks, or a comment-only line (indented or not): all mean
            // "no word here"
            if f.word_comments && r.chance(1, 2) {
                lines.push((*r.pick(&["# section", "   # indented note", "#", "# a #2 note"])).to_string());
            } else if r.chance(1, 6) {
                lines.push("   ".to_string());
            } else {
                lines.push(String::new());
            }
        } else if f.word_comments && r.chance(1, 4) {
            // trailing comments: with a space, a tab, nothing, or a second `#` inside
            let c = match r.below(5) {
                0 => format!("{w}#gloss"),
                1 => format!("{w}\t# gloss"),
                2 => format!("{w} # a #{} gloss", r.below(9)),
                _ => format!("{w} # gloss {}", r.below(100)),
            };
            lines.push(c);
        } else if r.chance(1, 10) {
            lines.push(format!("  {w}  "));
        } else {
            lines.push(w.clone());
        }
    }
    let mut s = lines.join(nl);
    // a final blank line only exists if a line terminator follows it
    if (f.trailing_newline && !s.is_empty()) || lines.last().map(|l| l.is_empty()).unwrap_or(false) {
        s.push_str(nl);
    }
    s
}

pub fn render_alias(into: &[String], from: &[String], f: &Fmt, blank_lines: bool, r: &mut Rng) -> String {
    let nl = f.nl();
    let mut s = String::new();
    if r.chance(1, 4) {
        s.push_str("# romanisation");
        s.push_str(nl);
    }
    let section = |s: &mut String, header: &str, lines: &[String], r: &mut Rng| {
        s.push_str(header);
        s.push_str(nl);
        for l in lines.iter() {
            if r.chance(1, 6) {
                s.push_str(f.indent);
                s.push_str("# note");
                s.push_str(nl);
            }
            if l.is_empty() {
                // a blank line inside a section (the reader keeps it as an empty alias line)
                s.push_str(nl);
                continue;
            }
            s.push_str(f.indent);
            s.push_str(l);
            s.push_str(nl);
        }
    };
    // both sections, in either order; an empty section may be left out altogether
    let from_first = r.chance(1, 4);
    let skip_empty = r.chance(1, 3);
    for k in 0..2 {
        let is_into = (k == 0) != from_first;
        let (header, lines) = if is_into { ("@into", into) } else { ("@from", from) };
        if lines.is_empty() && skip_empty {
            continue;
        }
        section(&mut s, header, lines, r);
        if k == 0 && blank_lines {
            s.push_str(nl);
        }
    }
    s
}

// ------------------------------------------------------------------ models

const NAMES: [&str; 25] = [
    "Shift #2", "a: b", "Þ Fortition", "Ümlaut II", "Éclipsis", "1st shift", "*special", "a  b", "Voice (early)", "Grimms Law", "Verners Law", "Voice", "Raise", "Glottal Deletion", "Cluster Simplification", "Hap(lo)logy", "Low Vowel Reduction", "Stress Shift",
    "Umlaut", "final-devoicing", "Palatalisation 2", "Lenition", "a-mutation", "Syncope", "Nasal Assimilation",
];
const DESCS: [&str; 12] = [
    // description text may itself begin with the characters that structure a rule file
    "#1 applies before #2",
    "## Notes",
    "@see Verner",
    "#",
    "Chain shift of the three series of plosives.",
    "Voiceless plosives become fricatives",
    "applies before sonorants; see notes",
    "Including cases where the vowel and fricative are separated by a sonorant.",
    "x > y, roughly",
    "TODO: check ordering (2)",
    "late change",
    "",
];

pub fn gen_description(r: &mut Rng) -> String {
    let n = r.below(4);
    let mut lines: Vec<&str> = Vec::new();
    for i in 0..n {
        let d = *r.pick(&DESCS);
        // the first line is never empty (the manual does not settle that form)
        if i == 0 && d.is_empty() {
            lines.push("note");
        } else {
            lines.push(d);
        }
    }
    // no trailing empty line either
    while lines.last().map(|l| l.is_empty()).unwrap_or(false) {
        lines.pop();
    }
    lines.join("\n")
}

pub fn safe_rule(d: &Data, r: &mut Rng, allow_wild: bool) -> String {
    loop {
        let rule = if allow_wild && r.chance(1, 8) { gen::gen_rule(d, r) } else if r.chance(1, 4) { r.pick(&d.example_rules).clone() } else { r.pick(&d.test_rules).clone() };
        let t = rule.trim();
        // rules that build whole syllables out of single segments make words grow geometrically
        // along a pipeline (C02's business, and slow): not used for the command-line engines
        let grows = rule.split('>').skip(1).any(|rhs| rhs.contains('<') || rhs.contains('⟨'));
        if t.is_empty() || t != rule || t.starts_with('@') || t.starts_with('#') || rule.contains('\n') || grows {
            continue;
        }
        return rule;
    }
}

pub fn safe_word(d: &Data, r: &mut Rng) -> String {
    if r.chance(1, 12) {
        // a phrase; sometimes with two blanks between its words (an empty word in the middle)
        let a = safe_word(d, r);
        let b = safe_word(d, r);
        return if r.chance(1, 2) { format!("{a}  {b}") } else { format!("{a} {b}") };
    }
    loop {
        let w = gen::gen_word(d, r);
        if w.contains('#') || w.trim() != w || w.is_empty() || w.contains('\n') {
            continue;
        }
        return w;
    }
}

pub fn gen_groups(d: &Data, r: &mut Rng, max_groups: usize, allow_wild: bool) -> Vec<Group> {
    let n = r.range(1, max_groups);
    let mut names: Vec<&str> = NAMES.to_vec();
    r.shuffle(&mut names);
    let mut groups: Vec<Group> = (0..n)
        .map(|i| {
            let lo = if r.chance(1, 10) { 0 } else { 1 };
            let nr = r.range(lo, 4);
            let rules = (0..nr).map(|_| safe_rule(d, r, allow_wild)).collect();
            Group { name: names[i].to_string(), rule: rules, description: gen_description(r) }
        })
        .collect();
    if n >= 2 && r.chance(1, 6) {
        // two groups may carry the same name (also in another case): they stay two groups
        let i = r.below(n);
        let j = (i + 1 + r.below(n - 1)) % n;
        let name = groups[i].name.clone();
        groups[j].name = match r.below(3) {
            0 => name.to_uppercase(),
            1 => name.to_lowercase(),
            _ => name,
        };
    }
    groups
}

pub fn gen_words(d: &Data, r: &mut Rng) -> Vec<String> {
    if r.chance(1, 20) {
        // a rule-only project: no words at all
        return Vec::new();
    }
    let n = r.range(1, 8);
    let mut v: Vec<String> = Vec::new();
    // blank lines are words too ("each word is declared on a new line"): at the start, in the
    // middle and at the end of a list
    if r.chance(1, 6) {
        v.push(String::new());
        if r.chance(1, 3) {
            v.push(String::new());
        }
    }
    for i in 0..n {
        if i > 0 && i + 1 < n && r.chance(1, 8) {
            v.push(String::new());
        } else {
            v.push(safe_word(d, r));
        }
    }
    if r.chance(1, 8) {
        v.push(String::new());
    }
    v
}

/// a rule file may begin with a plain list of rules before its first `@ title`: that is an
/// untitled group (the web UI's default, RuleGroup::from_rules)
pub fn maybe_untitled_first(groups: &mut Vec<Group>, d: &Data, r: &mut Rng) {
    if r.chance(1, 8) {
        let nr = r.range(1, 3);
        let rules = (0..nr).map(|_| safe_rule(d, r, false)).collect();
        groups.insert(0, Group { name: String::new(), rule: rules, description: String::new() });
    }
}

/// `#` lines are also used as notes between rules: rule lines that follow a description
/// without a new `@ title` are an untitled group of their own
pub fn maybe_untitled_after_description(groups: &mut Vec<Group>, d: &Data, r: &mut Rng) {
    if r.chance(1, 8) {
        let with_desc: Vec<usize> = (0..groups.len()).filter(|&i| !groups[i].description.is_empty()).collect();
        if with_desc.is_empty() {
            return;
        }
        let at = *r.pick(&with_desc) + 1;
        let nr = r.range(1, 2);
        let rules = (0..nr).map(|_| safe_rule(d, r, false)).collect();
        groups.insert(at, Group { name: String::new(), rule: rules, description: String::new() });
    }
}

pub fn gen_model(d: &Data, r: &mut Rng) -> Model {
    let wild = r.chance(1, 4);
    let (mut into, mut from) = if r.chance(1, 2) { gen::gen_aliases(r) } else { (vec![], vec![]) };
    // blank lines inside the sections of an alias file are kept by the reader as empty alias
    // lines (and count in the library's line numbers)
    for list in [&mut into, &mut from] {
        if !list.is_empty() && r.chance(1, 4) {
            let at = r.below(list.len() + 1);
            list.insert(at, String::new());
        }
    }
    let mut words = gen_words(d, r);
    let mut rules = gen_groups(d, r, 4, wild);
    maybe_untitled_first(&mut rules, d, r);
    maybe_untitled_after_description(&mut rules, d, r);
    // inputs the library refuses: a rule that does not parse, a word that does not parse, or both
    // (which of the errors is reported is the library's decision, and the tool must report that one)
    if r.chance(1, 8) && !rules.is_empty() {
        let bad: &str = *r.pick(&["a >", "> b", "a > b > c", "[+foo] > a", "a > b /", "a > [+voice", "a > b / _ _", "V > [tone: x]"][..]);
        let g = r.below(rules.len());
        let at = r.below(rules[g].rule.len() + 1);
        rules[g].rule.insert(at, bad.to_string());
    }
    if r.chance(1, 8) && !words.is_empty() {
        let bad: &str = *r.pick(&["k%ta", "pa&ta", "ta:[", "q=a", "t͡", "a᷄᷄᷄᷄᷄x)"][..]);
        let k = r.below(words.len());
        words[k] = bad.to_string();
    }
    Model { into, from, words, rules }
}

pub fn json_text(m: &Model, r: &mut Rng) -> String {
    match r.below(5) {
        0 | 1 => serde_json::to_string_pretty(m).unwrap(),
        2 => serde_json::to_string(m).unwrap(),
        _ => {
            // what another JSON writer might produce: keys in another order, an extra key the
            // tool does not know, non-ASCII text as \uXXXX escapes
            let mut v = serde_json::to_value(m).unwrap();
            if r.chance(1, 2) {
                v.as_object_mut().unwrap().insert("version".into(), serde_json::json!("0.6.1"));
            }
            let text = if r.chance(1, 2) { serde_json::to_string_pretty(&v).unwrap() } else { serde_json::to_string(&v).unwrap() };
            if r.chance(1, 2) {
                let mut out = String::new();
                for ch in text.chars() {
                    if ch.is_ascii() {
                        out.push(ch);
                    } else {
                        let mut buf = [0u16; 2];
                        for u in ch.encode_utf16(&mut buf) {
                            out.push_str(&format!("\\u{:04x}", u));
                        }
                    }
                }
                out
            } else {
                text
            }
        }
    }
}

// ------------------------------------------------------------------ histories

fn answers(r: &mut Rng) -> Vec<String> {
    match r.below(8) {
        6 => vec!["n".into(), "y".into(), "n".into()],
        7 => vec!["Yes".into(), "no".into(), "y".into()],
        0 | 1 => vec!["y".into()],
        2 => vec!["n".into()],
        3 => vec!["maybe".into(), "Y".into()],
        4 => vec!["".into()],
        _ => vec!["yes".into(), "yes".into(), "yes".into()],
    }
}

fn sel(r: &mut Rng, v: &[String], last: bool) -> String {
    if last {
        v.last().unwrap().clone()
    } else {
        r.pick(v).clone()
    }
}

/// Generate one history.  `faulty` selects the fault-injecting sub-batch.
pub fn gen_scn(d: &Data, r: &mut Rng, faulty: bool) -> Scn {
    let fmt = Fmt::draw(r);
    let m = gen_model(d, r);
    let mut files = BTreeMap::new();
    let mut meaning = BTreeMap::new();
    let mut dirs: Vec<String> = vec![];
    let has_alias = !m.into.is_empty() || !m.from.is_empty();
    let stems = ["r", "rules", "lang-a", "my rules"];
    // the tool also accepts .txt for word, rule and alias files
    let mut rs = format!("{}.{}", r.pick(&stems), if r.chance(1, 10) { "txt" } else { "rsca" });
    let ws = format!("{}.{}", r.pick(&["w", "lex", "words-1"]), if r.chance(1, 10) { "txt" } else { "wsca" });
    let al = "a.alias".to_string();
    if r.chance(1, 8) {
        // the rule file lives in a directory of its own, next to files that bear the names of
        // the word and alias files of the current directory (a path means what it means in the shell)
        rs = format!("lib/{rs}");
        files.insert(format!("lib/{ws}"), "mula\nnuna\n".to_string());
        meaning.insert(format!("lib/{ws}"), Meaning::Other);
        files.insert(format!("lib/{al}"), "@into\n    zz > a\n@from\n    a > zz\n".to_string());
        meaning.insert(format!("lib/{al}"), Meaning::Other);
    }
    files.insert(rs.clone(), render_rsca(&m.rules, &fmt, r));
    meaning.insert(rs.clone(), Meaning::Rules(m.rules.clone()));
    files.insert(ws.clone(), render_wsca(&m.words, &fmt, r));
    meaning.insert(ws.clone(), Meaning::Words(m.words.clone()));
    if has_alias {
        let blank = r.chance(1, 3);
        files.insert(al.clone(), render_alias(&m.into, &m.from, &fmt, blank, r));
        meaning.insert(al.clone(), Meaning::Alias(m.into.clone(), m.from.clone()));
    }
    // a JSON project: the same model or another one
    let mut json_path = None;
    if r.chance(2, 3) {
        let mj = if r.chance(1, 2) { m.clone() } else { gen_model(d, r) };
        let p = if r.chance(1, 3) { "web/p.json".to_string() } else { "p.json".to_string() };
        files.insert(p.clone(), json_text(&mj, r));
        meaning.insert(p.clone(), Meaning::Json(mj));
        json_path = Some(p);
    }
    // a second word list (for -w overriding the JSON's words, and for -c)
    let mut w2 = None;
    if r.chance(1, 2) {
        let words = gen_words(d, r);
        let p = "extra/w2.wsca".to_string();
        files.insert(p.clone(), render_wsca(&words, &fmt, r));
        meaning.insert(p.clone(), Meaning::Words(words));
        w2 = Some(p);
    }
    // unrelated files: must never be touched, must not confuse discovery
    if r.chance(1, 2) {
        files.insert("notes.md".into(), "# notes\nnot an asca file\n".into());
        meaning.insert("notes.md".into(), Meaning::Other);
    }
    if r.chance(1, 4) {
        files.insert("extra/junk.dat".into(), "\u{0}\u{1}binary".into());
        meaning.insert("extra/junk.dat".into(), Meaning::Other);
    }
    // decoys for directory discovery: names that merely look like word / rule / json files
    for (name, text) in [("notes.wsca~", "zzz\n"), ("old.rsca.bak", "@ Old\n    a > zzz\n"), ("W2.WSCA", "zzz\n"), ("p.json.orig", "{}"), ("rsca", "a > zzz\n")] {
        if r.chance(1, 6) {
            files.insert(name.to_string(), text.to_string());
            meaning.insert(name.to_string(), Meaning::Other);
        }
    }
    if r.chance(1, 2) {
        dirs.push("o".into());
        dirs.push("o/deep er".into());
    }
    dirs.push("wd".into());

    // pools of paths later invocations may name; outputs planned by earlier invocations join
    // them (if an earlier step did not produce the file, the model predicts the error)
    let mut p_rsca: Vec<String> = vec![rs.clone()];
    let mut p_wsca: Vec<String> = vec![ws.clone()];
    if let Some(w) = &w2 {
        p_wsca.push(w.clone());
    }
    let mut p_alias: Vec<String> = if has_alias { vec![al.clone()] } else { vec![] };
    let mut p_json: Vec<String> = json_path.iter().cloned().collect();
    let has_o = dirs.contains(&"o".to_string());
    let mut out_counter = 0usize;
    let directed = r.chance(1, 3);
    // in the fault-injecting batch: convert twice into the same explicit targets, declining
    // some overwrites the second time, with a fault while the others are being written
    let twice = faulty && !p_json.is_empty() && r.chance(1, 8);
    if twice {
        let jp = p_json[0].clone();
        let mk = |answers: Vec<String>, class: FaultClass, r: &mut Rng| Inv {
            cmd: Cmd::ConvJson { path: Some(jp.clone()), words: Some("twice.wsca".into()), rules: Some("twice.rsca".into()), alias: Some("twice.alias".into()) },
            cwd: String::new(),
            answers,
            detrand: r.next_u64() | 1,
            dirseed: r.next_u64() | 1,
            class,
            plan: vec![],
            fault_seed: r.next_u64(),
            recover: r.chance(1, 2),
            iocap: 0,
        };
        let second_answers: Vec<String> = match r.below(4) {
            0 => vec!["n".into(), "y".into(), "y".into()],
            1 => vec!["".into(), "y".into(), "y".into()],
            2 => vec!["n".into(), "n".into(), "y".into()],
            _ => vec!["y".into(), "n".into(), "y".into()],
        };
        let class = if r.chance(3, 4) { FaultClass::Hard } else { FaultClass::Crash };
        let first = mk(vec![], FaultClass::None, r);
        let second = mk(second_answers, class, r);
        return Scn { files, meaning, dirs, invs: vec![first, second] };
    }
    let n_inv = if directed { 4 } else { r.range(1, 6) };
    let mut invs = Vec::new();
    for step in 0..n_inv {
        let from_wd = r.chance(1, 6);
        let cwd = if from_wd { "wd".to_string() } else { String::new() };
        let p = |s: &str| if from_wd { format!("../{s}") } else { s.to_string() };
        let mut new_out = |r: &mut Rng, ext: &str| {
            out_counter += 1;
            let reuse = out_counter > 1 && r.chance(1, 3);
            let k = if reuse { r.range(1, out_counter - 1) } else { out_counter };
            if has_o && r.chance(1, 2) {
                if r.chance(1, 4) {
                    format!("o/deep er/out{k}.{ext}")
                } else {
                    format!("o/out{k}.{ext}")
                }
            } else if r.chance(1, 6) {
                format!("gen{k}.v2.{ext}")
            } else if r.chance(1, 12) {
                // no extension at all (refused), preferably next to an existing gen1.<ext>
                format!("gen{}", if out_counter > 1 { 1 } else { k })
            } else {
                format!("gen{k}.{ext}")
            }
        };
        let choice = if directed {
            match (step, p_json.is_empty()) {
                (0, false) => 6,
                (0, true) => 8,
                (1, false) => 8,
                (1, true) => 6,
                (2, _) => 4,
                _ => 0,
            }
        } else {
            r.below(10)
        };
        let cmd = match choice {
            0..=2 => {
                let out = if r.chance(2, 3) { Some(new_out(r, "wsca")) } else { None };
                let c = Cmd::Run {
                    rules: Some(p(&sel(r, &p_rsca, directed))),
                    json: None,
                    words: Some(p(&sel(r, &p_wsca, directed))),
                    alias: if !p_alias.is_empty() && r.chance(3, 4) { Some(p(&sel(r, &p_alias, directed))) } else { None },
                    output: out.as_ref().map(|o| p(o)),
                    compare: if r.chance(1, 6) { Some(p(&sel(r, &p_wsca, false))) } else { None },
                };
                if let Some(o) = out {
                    if !p_wsca.contains(&o) {
                        p_wsca.push(o);
                    }
                }
                c
            }
            3 => Cmd::Run { rules: None, json: None, words: None, alias: None, output: if r.chance(1, 2) { Some(p(&new_out(r, "wsca"))) } else { None }, compare: None },
            4 | 5 if !p_json.is_empty() => {
                let out = if r.chance(2, 3) { Some(new_out(r, "wsca")) } else { None };
                let c = Cmd::Run {
                    rules: None,
                    json: Some(p(&sel(r, &p_json, directed))),
                    words: if r.chance(1, 3) { Some(p(&sel(r, &p_wsca, false))) } else { None },
                    alias: if !p_alias.is_empty() && r.chance(1, 4) { Some(p(&sel(r, &p_alias, false))) } else { None },
                    output: out.as_ref().map(|o| p(o)),
                    compare: None,
                };
                if let Some(o) = out {
                    if !p_wsca.contains(&o) {
                        p_wsca.push(o);
                    }
                }
                c
            }
            6 | 7 if !p_json.is_empty() => {
                let explicit = directed || r.chance(2, 3);
                let w = if explicit && (directed || r.chance(3, 4)) { Some(new_out(r, "wsca")) } else { None };
                let ru = if explicit && (directed || r.chance(3, 4)) { Some(new_out(r, "rsca")) } else { None };
                let a = if explicit && (directed || r.chance(3, 4)) { Some(new_out(r, "alias")) } else { None };
                let c = Cmd::ConvJson {
                    path: if directed || r.chance(3, 4) { Some(p(&sel(r, &p_json, directed))) } else { None },
                    words: w.as_ref().map(|o| p(o)),
                    rules: ru.as_ref().map(|o| p(o)),
                    alias: a.as_ref().map(|o| p(o)),
                };
                let base = if from_wd { "wd/" } else { "" };
                let wv = w.unwrap_or(format!("{base}out.wsca"));
                let rv = ru.unwrap_or(format!("{base}out.rsca"));
                let av = a.unwrap_or(format!("{base}out.alias"));
                if !p_wsca.contains(&wv) {
                    p_wsca.push(wv);
                }
                if !p_rsca.contains(&rv) {
                    p_rsca.push(rv);
                }
                if !p_alias.contains(&av) {
                    p_alias.push(av);
                }
                c
            }
            _ => {
                let out = if directed || r.chance(2, 3) { Some(new_out(r, "json")) } else { None };
                let c = Cmd::ConvAsca {
                    words: if directed || r.chance(3, 4) { Some(p(&sel(r, &p_wsca, directed))) } else { None },
                    rules: if directed || r.chance(3, 4) { Some(p(&sel(r, &p_rsca, directed))) } else { None },
                    alias: if !p_alias.is_empty() && (directed || r.chance(3, 4)) { Some(p(&sel(r, &p_alias, directed))) } else { None },
                    output: out.as_ref().map(|o| p(o)),
                };
                let base = if from_wd { "wd/" } else { "" };
                let ov = out.unwrap_or(format!("{base}out.json"));
                if !p_json.contains(&ov) {
                    p_json.push(ov);
                }
                c
            }
        };
        // sometimes the output path names an existing directory (out.<ext> is then created for it)
        let mut cmd = cmd;
        let mut dir_target = false;
        if r.chance(1, 12) {
            let dname = if has_o && r.chance(1, 2) { "o" } else { "wd" };
            let dpath = if from_wd { format!("../{dname}") } else { dname.to_string() };
            match &mut cmd {
                Cmd::Run { output, .. } | Cmd::ConvAsca { output, .. } => {
                    *output = Some(dpath);
                    dir_target = true;
                }
                _ => {}
            }
        }
        let class = if !faulty || dir_target {
            FaultClass::None
        } else {
            match r.below(10) {
                0..=1 => FaultClass::None,
                2..=4 => FaultClass::Benign,
                5..=7 => FaultClass::Hard,
                _ => FaultClass::Crash,
            }
        };
        let fault_seed = r.next_u64();
        // an extension-less target is judged only when every answer declines (Target::Refuse in
        // c19.rs): make that the usual case, without drawing anything new
        let extless = !dir_target && {
            let outs: Vec<&Option<String>> = match &cmd {
                Cmd::Run { output, .. } | Cmd::ConvAsca { output, .. } => vec![output],
                Cmd::ConvJson { words, rules, alias, .. } => vec![words, rules, alias],
                Cmd::Edit { .. } => vec![],
            };
            outs.iter().any(|o| o.as_ref().map(|p| !p.rsplit('/').next().unwrap_or("").contains('.')).unwrap_or(false))
        };
        let drawn_answers = if dir_target {
            if r.chance(1, 2) { vec!["y".into(), "y".into()] } else { vec!["n".into(), "n".into()] }
        } else {
            answers(r)
        };
        invs.push(Inv {
            cmd,
            cwd,
            answers: if extless && (fault_seed >> 13) % 3 != 0 { vec![if (fault_seed >> 17) & 1 == 0 { "n".to_string() } else { String::new() }] } else { drawn_answers },
            detrand: r.next_u64() | 1,
            dirseed: if faulty || r.chance(1, 2) { r.next_u64() | 1 } else { 0 },
            class,
            plan: vec![],
            fault_seed,
            recover: matches!(class, FaultClass::Hard | FaultClass::Crash) && r.chance(2, 3),
            iocap: crate::cli::cap_from(fault_seed),
        });
    }
    if invs.len() >= 2 && r.chance(1, 4) {
        // the user edits the word list or the rules between two invocations
        let at = r.range(1, invs.len() - 1);
        let cmd = if r.chance(1, 2) {
            // a new list, or the old one with a word added at / removed from the end
            let words = match r.below(3) {
                0 => gen_words(d, r),
                1 => {
                    let mut w = m.words.clone();
                    w.push(safe_word(d, r));
                    w
                }
                _ => {
                    let mut w = m.words.clone();
                    if w.len() > 1 {
                        w.pop();
                    }
                    w
                }
            };
            Cmd::Edit { path: ws.clone(), text: render_wsca(&words, &fmt, r), meaning: Meaning::Words(words) }
        } else {
            let mut groups = gen_groups(d, r, 3, false);
            maybe_untitled_first(&mut groups, d, r);
            Cmd::Edit { path: rs.clone(), text: render_rsca(&groups, &fmt, r), meaning: Meaning::Rules(groups) }
        };
        invs.insert(at, Inv { cmd, cwd: String::new(), answers: vec![], detrand: 1, dirseed: 0, class: FaultClass::None, plan: vec![], fault_seed: 0, recover: false, iocap: 0 });
    }
    Scn { files, meaning, dirs, invs }
}
