//! Engine c01 -- "same input, same output" (DESIGN.md 4.1).
//!
//! K process instances (each with its own hash keys, thread count, initialising thread
//! and call history) execute the same multiset of library calls; the oracle is
//! agreement.  The same `Scenario` type drives the big run, the shrinker and replay.

use crate::gen::{self, harness_error, Data};
use crate::instance::{Call, Group, Job, Step, SEP};
use crate::prng::{self, Fnv, Rng};
use crate::proc::{self, par_map, RunSpec, Scratch};
use crate::report::{self, Evidence, Known, Violation};
use serde::{Deserialize, Serialize};
use serde_json::{json, Value};
use std::collections::{BTreeMap, BTreeSet};
use std::time::Instant;

#[derive(Serialize, Deserialize, Clone, Debug)]
pub struct Inst {
    pub detrand: u64,
    pub threads: usize,
    pub steps: Vec<Step>,
}

#[derive(Serialize, Deserialize, Clone, Debug)]
pub struct CliCase {
    pub rules: Vec<Group>,
    pub words: Vec<String>,
    pub into: Vec<String>,
    pub from: Vec<String>,
    pub detrands: Vec<u64>,
}

#[derive(Clone, Debug)]
pub struct Scenario {
    pub calls: Vec<Call>,
    pub insts: Vec<Inst>,
}

#[derive(Clone, Debug)]
pub struct RawViol {
    pub clause: &'static str,
    pub call: usize,
    pub a: (usize, usize), // (instance, step)
    pub b: (usize, usize),
    pub out_a: String,
    pub out_b: String,
}

pub struct RunRes {
    /// per instance, per step: Some(outcome) or None when skipped (hang)
    pub outcomes: Vec<Vec<Option<String>>>,
    pub hung_calls: BTreeSet<usize>,
    pub executions: u64,
}

const HANG_MS: u64 = 3000;

fn run_inst(scratch: &str, tag: &str, batch: &str, inst: &Inst, skip: &BTreeSet<usize>) -> Result<Vec<Option<String>>, usize> {
    // steps whose call is in `skip` are left out of the job and reported as None
    let mut idx_map = Vec::new();
    let mut steps = Vec::new();
    for (i, st) in inst.steps.iter().enumerate() {
        if !skip.contains(&st.call) {
            idx_map.push(i);
            steps.push(st.clone());
        }
    }
    let job = Job { batch: batch.to_string(), threads: inst.threads, steps, hang_ms: HANG_MS };
    let job_path = format!("{scratch}/job-{tag}.json");
    std::fs::write(&job_path, serde_json::to_string(&job).unwrap()).unwrap_or_else(|e| harness_error(&format!("write job: {e}")));
    let exe = proc::self_exe();
    let timeout = 60_000 + (job.steps.len() as u64) * 20;
    let out = proc::run(RunSpec {
        exe: &exe,
        args: vec!["instance".into(), job_path.clone()],
        cwd: None,
        env: proc::sim_env(inst.detrand),
        stdin: vec![],
        timeout_ms: timeout,
    })
    .unwrap_or_else(|e| harness_error(&format!("spawn instance: {e}")));
    let _ = std::fs::remove_file(&job_path);
    let mut res: Vec<Option<String>> = vec![None; inst.steps.len()];
    let mut n = 0usize;
    for line in out.stdout.lines() {
        if line.is_empty() {
            continue;
        }
        if let Some(rest) = line.strip_prefix("H ") {
            let k: usize = rest.trim().parse().unwrap_or(n);
            return Err(job.steps.get(k).map(|s| s.call).unwrap_or(usize::MAX));
        }
        if n < idx_map.len() {
            match serde_json::from_str::<String>(line) {
                Ok(s) => res[idx_map[n]] = Some(s),
                Err(_) => harness_error(&format!("instance {tag}: unparsable output line {line:?}")),
            }
            n += 1;
        }
    }
    if out.timed_out {
        // whole-instance watchdog: treat the step in progress as hung
        return Err(job.steps.get(n).map(|s| s.call).unwrap_or(usize::MAX));
    }
    if out.code != Some(0) || n != idx_map.len() {
        // the process died (signal / abort) in step n: same handling as a hang, the
        // call is excluded everywhere (a crash of the library is C02's business)
        if n < job.steps.len() {
            return Err(job.steps[n].call);
        }
        harness_error(&format!("instance {tag}: exit {:?} signal {:?} after {n} steps; stderr: {}", out.code, out.signal, out.stderr));
    }
    Ok(res)
}

/// Calibration: execute every call once, in small chunks spread over fresh processes, to find
/// the calls that hang or kill their process (C02's business) before the real instances meet
/// them 24 times over.  Returns the set of calls to leave out.
pub fn calibrate(scratch: &str, scn: &Scenario, workers: usize) -> BTreeSet<usize> {
    let batch = format!("{scratch}/batch-calib.json");
    std::fs::write(&batch, serde_json::to_string(&scn.calls).unwrap()).unwrap_or_else(|e| harness_error(&format!("write batch: {e}")));
    let n = scn.calls.len();
    let chunk = 400usize;
    let nchunks = (n + chunk - 1) / chunk;
    let res = par_map(nchunks, workers, |c| {
        let lo = c * chunk;
        let hi = ((c + 1) * chunk).min(n);
        let inst = Inst { detrand: prng::mix(0xca11b ^ c as u64) | 1, threads: 1, steps: (lo..hi).map(|i| Step { call: i, thread: 0, v: "base".into(), p: vec![] }).collect() };
        let mut skip: BTreeSet<usize> = BTreeSet::new();
        for _ in 0..50 {
            match run_inst(scratch, &format!("calib{c}"), &batch, &inst, &skip) {
                Ok(_) => break,
                Err(call) => {
                    if call == usize::MAX || !skip.insert(call) {
                        break;
                    }
                }
            }
        }
        skip
    });
    let _ = std::fs::remove_file(&batch);
    let out: BTreeSet<usize> = res.into_iter().flatten().collect();
    if std::env::var("VERIF_DEBUG").is_ok() {
        for c in &out {
            eprintln!("DEBUG calibration excludes call {c}: {:?}", scn.calls.get(*c));
        }
    }
    out
}

pub fn run_scenario_skipping(scratch: &str, scn: &Scenario, workers: usize, pre_skip: &BTreeSet<usize>) -> RunRes {
    run_scenario_inner(scratch, scn, workers, pre_skip.clone())
}

pub fn run_scenario(scratch: &str, scn: &Scenario, workers: usize) -> RunRes {
    run_scenario_inner(scratch, scn, workers, BTreeSet::new())
}

fn run_scenario_inner(scratch: &str, scn: &Scenario, workers: usize, pre_skip: BTreeSet<usize>) -> RunRes {
    let batch = format!("{scratch}/batch-{:016x}.json", {
        let mut f = Fnv::new();
        f.u64(scn.calls.len() as u64);
        f.u64(scn.insts.len() as u64);
        f.0
    });
    std::fs::write(&batch, serde_json::to_string(&scn.calls).unwrap()).unwrap_or_else(|e| harness_error(&format!("write batch: {e}")));
    let mut skip: BTreeSet<usize> = pre_skip;
    let mut outcomes: Vec<Option<Vec<Option<String>>>> = vec![None; scn.insts.len()];
    for _round in 0..40 {
        let todo: Vec<usize> = (0..scn.insts.len()).filter(|&i| outcomes[i].is_none()).collect();
        if todo.is_empty() {
            break;
        }
        let res = par_map(todo.len(), workers, |k| {
            let i = todo[k];
            run_inst(scratch, &format!("{i}"), &batch, &scn.insts[i], &skip)
        });
        let mut new_skip = false;
        for (k, r) in res.into_iter().enumerate() {
            match r {
                Ok(v) => outcomes[todo[k]] = Some(v),
                Err(call) => {
                    if call == usize::MAX {
                        harness_error("instance hung outside any step");
                    }
                    if skip.insert(call) {
                        new_skip = true;
                        if std::env::var("VERIF_DEBUG").is_ok() {
                            eprintln!("DEBUG instance {} hung/crashed in call {}: {:?}", todo[k], call, scn.calls.get(call));
                        }
                    }
                }
            }
        }
        if new_skip {
            // a newly skipped call must be skipped in every instance: redo the ones that ran it
            for i in 0..scn.insts.len() {
                if outcomes[i].is_some() && scn.insts[i].steps.iter().any(|s| skip.contains(&s.call)) {
                    // mark those steps None instead of re-running: their outcomes are simply not compared
                    let o = outcomes[i].as_mut().unwrap();
                    for (si, st) in scn.insts[i].steps.iter().enumerate() {
                        if skip.contains(&st.call) {
                            o[si] = None;
                        }
                    }
                }
            }
        }
    }
    let _ = std::fs::remove_file(&batch);
    let outcomes: Vec<Vec<Option<String>>> = outcomes
        .into_iter()
        .enumerate()
        .map(|(i, o)| o.unwrap_or_else(|| harness_error(&format!("instance {i} never completed (hang loop)"))))
        .collect();
    let executions = outcomes.iter().map(|v| v.iter().filter(|x| x.is_some()).count() as u64).sum();
    RunRes { outcomes, hung_calls: skip, executions }
}

fn split(o: &str) -> (char, Vec<&str>) {
    let mut it = o.split(SEP);
    let head = it.next().unwrap_or("");
    (head.chars().next().unwrap_or('?'), it.collect())
}

/// The oracle: agreement (DESIGN.md 4.1).
pub fn evaluate(scn: &Scenario, rr: &RunRes) -> Vec<RawViol> {
    let mut viols = Vec::new();
    // reference base outcome per call: first seen
    let mut reference: BTreeMap<usize, (usize, usize)> = BTreeMap::new();
    for (ii, inst) in scn.insts.iter().enumerate() {
        for (si, st) in inst.steps.iter().enumerate() {
            if st.v == "base" && rr.outcomes[ii][si].is_some() {
                reference.entry(st.call).or_insert((ii, si));
            }
        }
    }
    for (ii, inst) in scn.insts.iter().enumerate() {
        // the base outcome of each call inside this instance (first one)
        let mut local: BTreeMap<usize, usize> = BTreeMap::new();
        for (si, st) in inst.steps.iter().enumerate() {
            let Some(out) = rr.outcomes[ii][si].as_ref() else { continue };
            match st.v.as_str() {
                "base" => {
                    if let Some(&ls) = local.get(&st.call) {
                        let prev = rr.outcomes[ii][ls].as_ref().unwrap();
                        if prev != out {
                            viols.push(RawViol { clause: "repeat", call: st.call, a: (ii, ls), b: (ii, si), out_a: prev.clone(), out_b: out.clone() });
                        }
                    } else {
                        local.insert(st.call, si);
                        let &(ri, rs) = reference.get(&st.call).unwrap();
                        if (ri, rs) != (ii, si) {
                            let r = rr.outcomes[ri][rs].as_ref().unwrap();
                            if r != out {
                                viols.push(RawViol { clause: "cross-instance", call: st.call, a: (ri, rs), b: (ii, si), out_a: r.clone(), out_b: out.clone() });
                            }
                        }
                    }
                }
                "perm" | "single" => {
                    // compare with the base outcome in this instance if there is one, else the reference
                    let (bi, bs) = match local.get(&st.call) {
                        Some(&ls) => (ii, ls),
                        None => match reference.get(&st.call) {
                            Some(&x) => x,
                            None => continue,
                        },
                    };
                    let base = rr.outcomes[bi][bs].as_ref().unwrap();
                    let (bk, bw) = split(base);
                    let (ok, ow) = split(out);
                    let good = if bk == 'O' {
                        ok == 'O'
                            && ow.len() == st.p.len()
                            && st.p.iter().enumerate().all(|(k, &src)| bw.get(src).map(|w| *w == ow[k]).unwrap_or(false))
                    } else if st.v == "perm" {
                        // payloads name positions and the first failing word, which move
                        ok != 'O'
                    } else {
                        true
                    };
                    if !good {
                        let clause = if st.v == "perm" { "word-order" } else { "word-singleton" };
                        viols.push(RawViol { clause, call: st.call, a: (bi, bs), b: (ii, si), out_a: base.clone(), out_b: out.clone() });
                    }
                }
                _ => {}
            }
        }
        // a list that is refused while every one of its lines, alone, is accepted
        let mut alone: BTreeMap<usize, BTreeMap<usize, (usize, bool)>> = BTreeMap::new();
        for (si, st) in inst.steps.iter().enumerate() {
            if st.v == "single" && st.p.len() == 1 {
                if let Some(out) = rr.outcomes[ii][si].as_ref() {
                    alone.entry(st.call).or_default().entry(st.p[0]).or_insert((si, split(out).0 == 'O'));
                }
            }
        }
        for (call, m) in &alone {
            let Some(&ls) = local.get(call) else { continue };
            let base = rr.outcomes[ii][ls].as_ref().unwrap();
            let nw = scn.calls[*call].words.len();
            if split(base).0 == 'E' && m.len() == nw && m.values().all(|(_, ok)| *ok) {
                let (&_k, &(si, _)) = m.iter().next().unwrap();
                viols.push(RawViol { clause: "word-singleton", call: *call, a: (ii, ls), b: (ii, si), out_a: base.clone(), out_b: rr.outcomes[ii][si].clone().unwrap() });
            }
        }
    }
    viols
}

// ------------------------------------------------------------------ shrinking

fn subscenario(scn: &Scenario, insts: Vec<Inst>) -> Scenario {
    // re-index calls to those used
    let mut used: BTreeSet<usize> = BTreeSet::new();
    for i in &insts {
        for s in &i.steps {
            used.insert(s.call);
        }
    }
    let map: BTreeMap<usize, usize> = used.iter().enumerate().map(|(n, &c)| (c, n)).collect();
    let calls = used.iter().map(|&c| scn.calls[c].clone()).collect();
    let insts = insts
        .into_iter()
        .map(|mut i| {
            for s in i.steps.iter_mut() {
                s.call = map[&s.call];
            }
            i
        })
        .collect();
    Scenario { calls, insts }
}

fn still_fails(scratch: &str, scn: &Scenario, clause: &str, budget: &mut u32) -> Option<RawViol> {
    if *budget == 0 {
        return None;
    }
    *budget -= 1;
    let rr = run_scenario(scratch, scn, 4);
    evaluate(scn, &rr).into_iter().find(|v| v.clause == clause)
}

/// Delta-debug a violation down to a small explicit scenario.
pub fn shrink(scratch: &str, scn: &Scenario, v: &RawViol) -> (Scenario, RawViol) {
    let mut budget: u32 = 300;
    let (ia, sa) = v.a;
    let (ib, sb) = v.b;
    // stage 0: truncate both instances right after the steps involved, drop all other instances
    let mk = |i: usize, upto: usize| Inst { detrand: scn.insts[i].detrand, threads: scn.insts[i].threads, steps: scn.insts[i].steps[..=upto].to_vec() };
    let insts0 = if ia == ib { vec![mk(ia, sa.max(sb))] } else { vec![mk(ia, sa), mk(ib, sb)] };
    let mut cur = subscenario(scn, insts0);
    let mut curv = match still_fails(scratch, &cur, v.clause, &mut budget) {
        Some(x) => x,
        None => {
            // does not reproduce after truncation: keep the full instances (still explicit)
            let insts = if ia == ib { vec![scn.insts[ia].clone()] } else { vec![scn.insts[ia].clone(), scn.insts[ib].clone()] };
            let s = subscenario(scn, insts);
            let vv = still_fails(scratch, &s, v.clause, &mut budget).unwrap_or_else(|| v.clone());
            return (s, vv);
        }
    };
    // stage 1: remove chunks of steps that are not the violating steps
    let mut chunk = cur.insts.iter().map(|i| i.steps.len()).max().unwrap_or(1) / 2;
    while chunk >= 1 && budget > 0 {
        let mut progress = false;
        for ii in 0..cur.insts.len() {
            let mut start = 0usize;
            while start < cur.insts[ii].steps.len() && budget > 0 {
                let keep_a = if curv.a.0 == ii { Some(curv.a.1) } else { None };
                let keep_b = if curv.b.0 == ii { Some(curv.b.1) } else { None };
                let end = (start + chunk).min(cur.insts[ii].steps.len());
                let mut cand_insts = cur.insts.clone();
                let mut removed = 0;
                let mut new_steps = Vec::new();
                for (k, st) in cur.insts[ii].steps.iter().enumerate() {
                    if k >= start && k < end && Some(k) != keep_a && Some(k) != keep_b {
                        removed += 1;
                    } else {
                        new_steps.push(st.clone());
                    }
                }
                if removed == 0 {
                    start = end;
                    continue;
                }
                cand_insts[ii].steps = new_steps;
                let cand = subscenario(&cur, cand_insts);
                if let Some(nv) = still_fails(scratch, &cand, v.clause, &mut budget) {
                    cur = cand;
                    curv = nv;
                    progress = true;
                    // stay at the same start: the list shifted
                } else {
                    start = end;
                }
            }
        }
        if !progress {
            chunk /= 2;
        }
    }
    // stage 2: reduce threads to 1 where possible
    for ii in 0..cur.insts.len() {
        if cur.insts[ii].threads > 1 && budget > 0 {
            let mut cand = cur.clone();
            cand.insts[ii].threads = 1;
            for s in cand.insts[ii].steps.iter_mut() {
                s.thread = 0;
            }
            if let Some(nv) = still_fails(scratch, &cand, v.clause, &mut budget) {
                cur = cand;
                curv = nv;
            }
        }
    }
    // stage 3: shrink the violating call itself: words to one, rules/groups dropped
    let c = curv.call;
    let only_base = cur.insts.iter().all(|i| i.steps.iter().all(|s| s.call != c || s.v == "base"));
    if only_base {
        if cur.calls[c].kind == "run" && cur.calls[c].words.len() > 1 {
            for w in 0..cur.calls[c].words.len() {
                if budget == 0 {
                    break;
                }
                let mut cand = cur.clone();
                cand.calls[c].words = vec![cur.calls[c].words[w].clone()];
                if let Some(nv) = still_fails(scratch, &cand, v.clause, &mut budget) {
                    cur = cand;
                    curv = nv;
                    break;
                }
            }
        }
    }
    if !only_base && cur.calls[c].kind == "run" {
        // permuted / singleton steps: drop one word at a time, re-indexing the steps' word lists
        let mut k = 0;
        while cur.calls[c].words.len() > 2 && k < cur.calls[c].words.len() && budget > 0 {
            let mut cand = cur.clone();
            cand.calls[c].words.remove(k);
            let mut ok = true;
            for inst in cand.insts.iter_mut() {
                for st in inst.steps.iter_mut() {
                    if st.call != c || st.v == "base" {
                        continue;
                    }
                    if st.v == "single" && st.p[0] == k {
                        ok = false;
                    }
                    st.p.retain(|&x| x != k);
                    for x in st.p.iter_mut() {
                        if *x > k {
                            *x -= 1;
                        }
                    }
                }
            }
            if ok {
                if let Some(nv) = still_fails(scratch, &cand, v.clause, &mut budget) {
                    cur = cand;
                    curv = nv;
                    continue;
                }
            }
            k += 1;
        }
    }
    // drop groups, then rules
    let mut gi = 0;
    while gi < cur.calls[c].rules.len() && budget > 0 {
        let mut cand = cur.clone();
        cand.calls[c].rules.remove(gi);
        if let Some(nv) = still_fails(scratch, &cand, v.clause, &mut budget) {
            cur = cand;
            curv = nv;
        } else {
            gi += 1;
        }
    }
    for gi in 0..cur.calls[c].rules.len() {
        let mut ri = 0;
        while ri < cur.calls[c].rules[gi].rule.len() && budget > 0 {
            let mut cand = cur.clone();
            cand.calls[c].rules[gi].rule.remove(ri);
            if let Some(nv) = still_fails(scratch, &cand, v.clause, &mut budget) {
                cur = cand;
                curv = nv;
            } else {
                ri += 1;
            }
        }
    }
    for which in 0..2 {
        if budget == 0 {
            break;
        }
        let mut cand = cur.clone();
        if which == 0 {
            if cand.calls[c].into.is_empty() {
                continue;
            }
            cand.calls[c].into.clear();
        } else {
            if cand.calls[c].from.is_empty() {
                continue;
            }
            cand.calls[c].from.clear();
        }
        if let Some(nv) = still_fails(scratch, &cand, v.clause, &mut budget) {
            cur = cand;
            curv = nv;
        }
    }
    (cur, curv)
}

fn show(o: &str) -> String {
    o.replace(SEP, " | ")
}

pub fn to_violation(scn: &Scenario, v: &RawViol, seed: u64) -> Violation {
    let c = &scn.calls[v.call];
    let mut f = Fnv::new();
    f.str(&serde_json::to_string(c).unwrap());
    let signature = format!("{:016x}", f.0);
    let detail = format!(
        "clause {}: call {} {:?} words {:?} into {:?} from {:?}\n  instance {} (DETRAND_SEED={}) step {} -> {}\n  instance {} (DETRAND_SEED={}) step {} -> {}",
        v.clause,
        c.kind,
        c.rules.iter().map(|g| g.rule.clone()).collect::<Vec<_>>(),
        c.words,
        c.into,
        c.from,
        v.a.0,
        scn.insts[v.a.0].detrand,
        v.a.1,
        show(&v.out_a),
        v.b.0,
        scn.insts[v.b.0].detrand,
        v.b.1,
        show(&v.out_b)
    );
    let replay = json!({
        "property": "C01",
        "engine": "c01",
        "kind": "library",
        "verif_seed": seed,
        "clause": v.clause,
        "calls": scn.calls,
        "instances": scn.insts,
        "observed": {"call": v.call, "a": [v.a.0, v.a.1], "b": [v.b.0, v.b.1], "out_a": show(&v.out_a), "out_b": show(&v.out_b)},
        "expected": "every execution of the same call yields the same outcome in every instance; a permuted/singleton word list yields the same per-word outputs",
    });
    Violation { property: "C01".into(), clause: v.clause.into(), signature, detail, replay }
}

// ------------------------------------------------------------------ CLI instances

pub fn rsca_text(groups: &[Group]) -> String {
    let mut s = String::new();
    for g in groups {
        s.push_str(&format!("@ {}\n", g.name));
        for r in &g.rule {
            s.push_str(&format!("    {}\n", r));
        }
        s.push('\n');
    }
    s
}

pub fn alias_text(into: &[String], from: &[String]) -> String {
    let mut s = String::from("@into\n");
    for l in into {
        s.push_str(&format!("    {l}\n"));
    }
    s.push_str("@from\n");
    for l in from {
        s.push_str(&format!("    {l}\n"));
    }
    s
}

/// run `asca run` on the case under each key set; returns the stdouts
pub fn run_cli_case(scratch: &str, tag: &str, case: &CliCase) -> Vec<String> {
    let dir = format!("{scratch}/cli-{tag}");
    let _ = std::fs::remove_dir_all(&dir);
    std::fs::create_dir_all(&dir).unwrap_or_else(|e| harness_error(&format!("mkdir {dir}: {e}")));
    std::fs::write(format!("{dir}/r.rsca"), rsca_text(&case.rules)).unwrap();
    std::fs::write(format!("{dir}/w.wsca"), case.words.join("\n")).unwrap();
    let has_alias = !case.into.is_empty() || !case.from.is_empty();
    if has_alias {
        std::fs::write(format!("{dir}/a.alias"), alias_text(&case.into, &case.from)).unwrap();
    }
    let mut outs = Vec::new();
    for &k in &case.detrands {
        let mut args: Vec<String> = vec!["run".into(), "-r".into(), "r.rsca".into(), "-w".into(), "w.wsca".into()];
        if has_alias {
            args.push("-l".into());
            args.push("a.alias".into());
        }
        let o = proc::run(RunSpec { exe: &proc::asca_bin(), args, cwd: Some(&dir), env: proc::sim_env(k), stdin: vec![], timeout_ms: 20_000 })
            .unwrap_or_else(|e| harness_error(&format!("spawn asca: {e}")));
        if o.timed_out {
            outs.push("<hang>".to_string());
        } else {
            outs.push(format!("exit={:?} signal={:?}\n{}", o.code, o.signal, o.stdout));
        }
    }
    let _ = std::fs::remove_dir_all(&dir);
    outs
}

fn cli_violation(case: &CliCase, outs: &[String], seed: u64) -> Option<Violation> {
    if outs.iter().any(|o| o == "<hang>") {
        return None; // a hang is the same everywhere and is not C01's business
    }
    let first = &outs[0];
    let j = outs.iter().position(|o| o != first)?;
    let mut f = Fnv::new();
    f.str(&serde_json::to_string(&(&case.rules, &case.words, &case.into, &case.from)).unwrap());
    let detail = format!(
        "clause cli-stdout: `asca run -r r.rsca -w w.wsca` rules {:?} words {:?}\n  DETRAND_SEED={} ->\n{}\n  DETRAND_SEED={} ->\n{}",
        case.rules.iter().map(|g| g.rule.clone()).collect::<Vec<_>>(),
        case.words,
        case.detrands[0],
        first,
        case.detrands[j],
        outs[j]
    );
    let mut small = case.clone();
    small.detrands = vec![case.detrands[0], case.detrands[j]];
    let replay = json!({
        "property": "C01", "engine": "c01", "kind": "cli", "verif_seed": seed, "clause": "cli-stdout",
        "case": small,
        "observed": {"stdout_a": first, "stdout_b": outs[j]},
        "expected": "stdout of `asca run` on the same files is byte-identical in every process",
    });
    Some(Violation { property: "C01".into(), clause: "cli-stdout".into(), signature: format!("{:016x}", f.0), detail, replay })
}

fn shrink_cli(scratch: &str, case: &CliCase, seed: u64) -> Violation {
    let mut cur = case.clone();
    let outs = run_cli_case(scratch, "shrink", &cur);
    let mut best = cli_violation(&cur, &outs, seed).expect("cli violation reproduces");
    // keep the two disagreeing key sets, then words to one
    if let Some(c) = best.replay.get("case") {
        cur = serde_json::from_value(c.clone()).unwrap();
    }
    if cur.words.len() > 1 {
        for w in 0..cur.words.len() {
            let mut cand = cur.clone();
            cand.words = vec![cur.words[w].clone()];
            let o = run_cli_case(scratch, "shrink", &cand);
            if let Some(v) = cli_violation(&cand, &o, seed) {
                cur = cand;
                best = v;
                break;
            }
        }
    }
    let _ = cur;
    best
}

// ------------------------------------------------------------------ CLI tree cases (seq / conv / run on a project directory)

/// the same command on the same project directory, executed in fresh processes under
/// different hash keys and directory orders: stdout, exit status and every file must agree
#[derive(Serialize, Deserialize, Clone, Debug)]
pub struct TreeCase {
    pub files: BTreeMap<String, String>,
    pub dirs: Vec<String>,
    pub cwd: String,
    pub argv: Vec<String>,
    pub stdin: String,
    /// (DETRAND_SEED, SIM_DIRSEED) per instance
    pub keys: Vec<(u64, u64)>,
}

fn run_tree_case(scratch: &str, tag: &str, case: &TreeCase) -> Vec<String> {
    let mut outs = Vec::new();
    for (k, &(detrand, dirseed)) in case.keys.iter().enumerate() {
        let root = format!("{scratch}/tree-{tag}-{k}");
        crate::cli::write_tree(&root, &case.files, &case.dirs);
        let o = crate::cli::exec(&root, &case.cwd, &case.argv, &case.stdin, detrand, dirseed, &vec![]);
        if o.out.timed_out {
            outs.push("<hang>".to_string());
        } else {
            let snap = crate::cli::snapshot(&root);
            let mut f = Fnv::new();
            let mut listing = String::new();
            for (p, c) in &snap {
                f.str(p);
                if let Some(b) = c {
                    f.bytes(b);
                }
                listing.push_str(&format!("{p} {}\n", c.as_ref().map(|b| b.len() as i64).unwrap_or(-1)));
            }
            outs.push(format!("exit={:?} signal={:?}\n--- stdout\n{}--- files (digest {:016x})\n{}", o.out.code, o.out.signal, o.out.stdout, f.0, listing));
        }
        let _ = std::fs::remove_dir_all(&root);
    }
    outs
}

fn tree_violation(case: &TreeCase, outs: &[String], seed: u64) -> Option<Violation> {
    if outs.iter().any(|o| o == "<hang>") {
        return None;
    }
    let first = &outs[0];
    let j = outs.iter().position(|o| o != first)?;
    let mut small = case.clone();
    small.keys = vec![case.keys[0], case.keys[j]];
    let shape: Vec<String> = case.argv.iter().filter(|a| a.starts_with('-') || ["run", "seq", "conv", "asca", "json", "tag"].contains(&a.as_str())).cloned().collect();
    let detail = format!(
        "clause cli-output: `asca {}` (cwd {:?}) on the same project directory\n  DETRAND_SEED={} SIM_DIRSEED={} ->\n{}\n  DETRAND_SEED={} SIM_DIRSEED={} ->\n{}",
        case.argv.join(" "), case.cwd, case.keys[0].0, case.keys[0].1, first, case.keys[j].0, case.keys[j].1, outs[j]
    );
    let replay = json!({
        "property": "C01", "engine": "c01", "kind": "cli-tree", "verif_seed": seed, "clause": "cli-output",
        "case": small,
        "observed": {"a": first, "b": outs[j]},
        "expected": "stdout, exit status and every file written by the same command on the same files are identical in every process",
    });
    Some(Violation { property: "C01".into(), clause: "cli-output".into(), signature: shape.join("_"), detail, replay })
}

fn gen_tree_case(d: &Data, seed: u64, i: usize, nkeys: usize) -> TreeCase {
    let mut r = Rng::derive(seed, prng::D_GEN, 800_000 + i as u64);
    let mut ks = Rng::derive(seed, prng::D_KEYS, 800_000 + i as u64);
    let keys = (0..nkeys).map(|_| (ks.next_u64() | 1, ks.next_u64() | 1)).collect();
    if i % 2 == 0 {
        // a seq project: all tags at once is where per-tag state is iterated
        let scn = crate::c20gen::gen_scn(d, &mut r, false, None);
        let argv: Vec<String> = match r.below(5) {
            0 => vec!["seq".into()],
            1 => vec!["seq".into(), "-a".into()],
            2 => vec!["seq".into(), "-o".into(), "-y".into()],
            3 => vec!["seq".into(), "-o".into(), "-y".into(), "-i".into()],
            _ => scn.invs[0].cmd.argv(),
        };
        TreeCase { files: scn.files, dirs: scn.dirs, cwd: crate::c20gen::PROJ.to_string(), argv, stdin: "n\nn\nn\nn\n".into(), keys }
    } else {
        let scn = crate::c19gen::gen_scn(d, &mut r, false);
        let inv = &scn.invs[0];
        TreeCase { files: scn.files, dirs: scn.dirs, cwd: inv.cwd.clone(), argv: inv.cmd.argv(), stdin: crate::cli::stdin_script(&inv.answers), keys }
    }
}

// ------------------------------------------------------------------ building the big scenario

pub struct Tier {
    pub name: &'static str,
    pub k_instances: usize,
    pub sweep_instances: usize,
    pub n_gen: usize,
    pub n_corpus: usize,
    pub n_cli: usize,
    pub cli_keys: usize,
    pub blocks: usize,
    pub n_tree: usize,
    /// per block: calls additionally executed as the one and only call of a fresh process
    pub n_fresh: usize,
}

pub fn tier(name: &str) -> Tier {
    match name {
        "thorough" => Tier { name: "thorough", k_instances: 16, sweep_instances: 64, n_gen: 12_000, n_corpus: 8_000, n_cli: 1200, cli_keys: 4, blocks: 16, n_tree: 3000, n_fresh: 1500 },
        "mini" => Tier { name: "quick", k_instances: 5, sweep_instances: 0, n_gen: 300, n_corpus: 200, n_cli: 20, cli_keys: 2, blocks: 1, n_tree: 20, n_fresh: 10 },
        _ => Tier { name: "quick", k_instances: 24, sweep_instances: 8, n_gen: 2_500, n_corpus: 1_500, n_cli: 150, cli_keys: 3, blocks: 1, n_tree: 300, n_fresh: 400 },
    }
}

fn build_inst(seed: u64, block: u64, j: usize, calls: &[usize], ncalls_words: &dyn Fn(usize) -> (bool, usize)) -> Inst {
    let mut ks = Rng::derive(seed, prng::D_KEYS, block * 1000 + j as u64);
    let detrand = ks.next_u64() | 1;
    let mut r = Rng::derive(seed, prng::D_SCHED, block * 1000 + j as u64);
    let threads = r.range(1, 3);
    let mut order: Vec<usize> = calls.to_vec();
    r.shuffle(&mut order);
    let mut steps = Vec::with_capacity(order.len() * 2);
    for c in order {
        let t = r.below(threads);
        steps.push(Step { call: c, thread: t, v: "base".into(), p: vec![] });
        if r.chance(1, 4) {
            // the immediate repetition, possibly from another thread
            let t2 = if r.chance(1, 2) { t } else { r.below(threads) };
            steps.push(Step { call: c, thread: t2, v: "base".into(), p: vec![] });
        }
        let (is_run, nw) = ncalls_words(c);
        if is_run && nw >= 2 {
            if r.chance(1, 2) {
                let p = r.perm(nw);
                steps.push(Step { call: c, thread: r.below(threads), v: "perm".into(), p });
            }
            if r.chance(1, 2) {
                let i = r.below(nw);
                steps.push(Step { call: c, thread: r.below(threads), v: "single".into(), p: vec![i] });
                if nw <= 6 && r.chance(1, 3) {
                    // ... and every other line on its own too: a list that fails holds a line that fails
                    for k in (0..nw).filter(|k| *k != i) {
                        steps.push(Step { call: c, thread: r.below(threads), v: "single".into(), p: vec![k] });
                    }
                }
            }
        }
    }
    Inst { detrand, threads, steps }
}

fn load_diacritics() -> Vec<char> {
    let p = format!("{}/src/diacritics.json", gen::repo_dir());
    let txt = std::fs::read_to_string(&p).unwrap_or_else(|e| harness_error(&format!("read {p}: {e}")));
    let v: Value = serde_json::from_str(&txt).unwrap_or_else(|e| harness_error(&format!("parse {p}: {e}")));
    v.as_array().map(|a| a.iter().filter_map(|d| d.get("diacrit").and_then(|x| x.as_str()).and_then(|s| s.chars().next())).collect()).unwrap_or_default()
}

pub fn main_c01(tier_name: &str, seed: u64) -> i32 {
    let t0 = Instant::now();
    let tr = tier(tier_name);
    let d = Data::load();
    let known = Known::load();
    let scratch = Scratch::new("c01");
    let workers = proc::workers();
    println!("c01 tier={} VERIF_SEED={} workers={}", tr.name, seed, workers);

    let diacritics = load_diacritics();
    let tie_members: BTreeSet<&str> = d.tie_groups.iter().flat_map(|g| g.iter().map(|s| s.as_str())).collect();

    let sweep = gen::renderer_sweep(&d);
    let mut violations: Vec<Violation> = Vec::new();
    let mut executions: u64 = 0;
    let mut distinct: BTreeSet<u64> = BTreeSet::new();
    let mut nontrivial: BTreeSet<u64> = BTreeSet::new();
    let mut samples: Vec<Value> = Vec::new();
    let mut probes: BTreeMap<&'static str, u64> = BTreeMap::new();
    let mut keysets: BTreeSet<u64> = BTreeSet::new();
    let mut schedules: BTreeSet<u64> = BTreeSet::new();
    let mut hung_total = 0u64;
    let mut log_digest = Fnv::new();

    for block in 0..tr.blocks as u64 {
        // ---- the batch of this block
        let mut calls: Vec<Call> = Vec::new();
        let n_sweep = if block == 0 { sweep.len() } else { 0 };
        if block == 0 {
            calls.extend(sweep.iter().cloned());
        }
        let mut g = Rng::derive(seed, prng::D_GEN, block);
        for _ in 0..tr.n_gen {
            let c = gen::gen_call(&d, &mut g);
            let sib = if g.chance(1, 5) { gen::sibling_call(&c, &mut g) } else { None };
            calls.push(c);
            if let Some(s) = sib {
                calls.push(s);
            }
        }
        for _ in 0..tr.n_corpus {
            calls.push(gen::corpus_call(&d, &mut g));
        }
        for _ in 0..(tr.n_gen / 25).max(4) {
            calls.extend(gen::modifier_family(&mut g));
            calls.push(gen::tone_alias_call(&mut g));
            calls.push(gen::env_set_call(&mut g));
            calls.push(gen::plus_stack_call(&mut g));
            calls.push(gen::refused_word_call(&mut g));
            calls.push(gen::alt_spelling_call(&mut g));
            calls.push(gen::boundary_alias_call(&mut g));
            calls.extend(gen::deroman_family(&mut g));
        }
        for _ in 0..(tr.n_gen / 60).max(3) {
            calls.push(gen::long_list_call(&d, &mut g));
        }
        let sampled: Vec<usize> = (n_sweep..calls.len()).collect();
        let all: Vec<usize> = (0..calls.len()).collect();
        let info = |c: usize| (calls[c].kind == "run", calls[c].words.len());
        let mut insts = Vec::new();
        let k_total = tr.k_instances.max(if block == 0 { tr.sweep_instances } else { 0 });
        for j in 0..k_total {
            let with_sweep = block == 0 && j < tr.sweep_instances;
            let with_sampled = j < tr.k_instances;
            let set: Vec<usize> = match (with_sweep, with_sampled) {
                (true, true) => all.clone(),
                (true, false) => (0..n_sweep).collect(),
                (false, _) => sampled.clone(),
            };
            insts.push(build_inst(seed, block, j, &set, &info));
        }
        // history-free references: a sample of the calls, each as the only call a process ever makes
        {
            let mut fr = Rng::derive(seed, prng::D_SCHED, 700_000 + block);
            let mut ks = Rng::derive(seed, prng::D_KEYS, 700_000 + block);
            for _ in 0..tr.n_fresh.min(calls.len()) {
                let c = if block == 0 && n_sweep > 0 && fr.chance(1, 3) { fr.below(n_sweep) } else { n_sweep + fr.below(calls.len() - n_sweep) };
                insts.push(Inst { detrand: ks.next_u64() | 1, threads: 1, steps: vec![Step { call: c, thread: 0, v: "base".into(), p: vec![] }] });
            }
        }
        let scn = Scenario { calls, insts };
        for i in &scn.insts {
            keysets.insert(i.detrand);
            let mut f = Fnv::new();
            f.u64(i.threads as u64);
            for s in i.steps.iter().take(64) {
                f.u64(s.call as u64);
                f.u64(s.thread as u64);
            }
            schedules.insert(f.0);
            if i.steps.first().map(|s| s.thread != 0).unwrap_or(false) {
                *probes.entry("init_thread_not_main").or_default() += 1;
            }
            *probes.entry("first_call_of_process").or_default() += 1;
        }
        let pre_skip = calibrate(&scratch.path, &scn, workers);
        let rr = run_scenario_skipping(&scratch.path, &scn, workers, &pre_skip);
        executions += rr.executions;
        hung_total += rr.hung_calls.len() as u64;

        // ---- probes and coverage from the reference outcomes
        for (ii, inst) in scn.insts.iter().enumerate().take(1) {
            for (si, st) in inst.steps.iter().enumerate() {
                if st.v != "base" {
                    continue;
                }
                let Some(o) = rr.outcomes[ii][si].as_ref() else { continue };
                let c = &scn.calls[st.call];
                let dg = prng::digest_str(&serde_json::to_string(c).unwrap());
                let newc = distinct.insert(dg);
                let (k, ws) = split(o);
                match k {
                    'O' => {
                        let changed = c.kind != "run" || ws.iter().zip(c.words.iter()).any(|(a, b)| a != b);
                        if changed {
                            nontrivial.insert(dg);
                        }
                        if newc {
                            if ws.iter().any(|w| w.chars().any(|ch| diacritics.contains(&ch))) {
                                *probes.entry("outputs_with_diacritic_search").or_default() += 1;
                            }
                            if ws.iter().any(|w| tie_members.iter().any(|t| w.contains(t))) {
                                *probes.entry("outputs_with_exact_match_tie_grapheme").or_default() += 1;
                            }
                        }
                    }
                    'E' => *probes.entry("err_outcomes_compared").or_default() += 1,
                    'P' => *probes.entry("panic_outcomes_compared").or_default() += 1,
                    _ => {}
                }
                if newc {
                    if c.rules.iter().any(|g| g.rule.iter().any(|r| r.contains("[A") && r.contains("B"))) {
                        *probes.entry("rules_with_two_alphas").or_default() += 1;
                    }
                    if c.rules.iter().any(|g| g.rule.iter().any(|r| r.contains("=1") && r.contains("=2"))) {
                        *probes.entry("rules_with_two_variables").or_default() += 1;
                    }
                    if !c.into.is_empty() || !c.from.is_empty() {
                        *probes.entry("calls_with_aliases").or_default() += 1;
                    }
                }
                if samples.len() < 6 && (si % 997 == 3 || samples.is_empty()) && k == 'O' {
                    samples.push(json!({"call": c, "instance_detrand": inst.detrand, "thread": st.thread, "outcome": show(o)}));
                }
            }
        }
        for (ii, inst) in scn.insts.iter().enumerate() {
            for (si, st) in inst.steps.iter().enumerate() {
                if let Some(o) = rr.outcomes[ii][si].as_ref() {
                    log_digest.u64(ii as u64);
                    log_digest.u64(st.call as u64);
                    log_digest.u64(st.thread as u64);
                    log_digest.str(o);
                }
                match st.v.as_str() {
                    "perm" => *probes.entry("permuted_word_list_calls").or_default() += 1,
                    "single" => *probes.entry("singleton_word_calls").or_default() += 1,
                    _ => {}
                }
            }
        }

        // ---- oracle
        let raw = evaluate(&scn, &rr);
        if !raw.is_empty() {
            println!("block {block}: {} raw disagreement(s); minimising the first of each clause", raw.len());
            // per clause: minimise disagreements (one per distinct call) until one is found that
            // is not a listed known finding
            let mut done: BTreeSet<&str> = BTreeSet::new();
            let mut tried: BTreeMap<&str, u32> = BTreeMap::new();
            let mut seen_calls: BTreeSet<(&str, usize)> = BTreeSet::new();
            for v in &raw {
                if done.contains(v.clause) || !seen_calls.insert((v.clause, v.call)) {
                    continue;
                }
                let n = tried.entry(v.clause).or_default();
                if *n >= 8 {
                    continue;
                }
                *n += 1;
                let (small, sv) = shrink(&scratch.path, &scn, v);
                let viol = to_violation(&small, &sv, seed);
                let is_known = known.matches(&viol).is_some();
                violations.push(viol);
                if !is_known {
                    done.insert(v.clause);
                }
            }
            break;
        }
    }

    // ---- CLI instances: stdout of `asca run` across key sets
    let mut cli_runs = 0u64;
    if violations.is_empty() || true {
        let mut g = Rng::derive(seed, prng::D_GEN, 900_000);
        let mut cases = Vec::new();
        for i in 0..tr.n_cli {
            let c = if i % 3 == 0 {
                // renderer-sensitive: a toggle rule on a few cardinals
                let f = g.pick(&gen::FEATS);
                let sign = if g.chance(1, 2) { "+" } else { "-" };
                let words = (0..g.range(3, 10)).map(|_| g.pick(&d.cardinals).clone()).collect();
                gen::run_call(vec![format!("[] > [{sign}{f}]")], words)
            } else {
                let mut c = gen::gen_call(&d, &mut g);
                c.kind = "run".into();
                c
            };
            let mut ks = Rng::derive(seed, prng::D_KEYS, 900_000 + i as u64);
            let detrands = (0..tr.cli_keys).map(|_| ks.next_u64() | 1).collect();
            cases.push(CliCase { rules: c.rules, words: c.words, into: c.into, from: c.from, detrands });
        }
        let outs = par_map(cases.len(), workers, |i| run_cli_case(&scratch.path, &format!("{i}"), &cases[i]));
        let mut first_cli = true;
        for (i, o) in outs.iter().enumerate() {
            cli_runs += o.len() as u64;
            for k in &cases[i].detrands {
                keysets.insert(*k);
            }
            for s in o {
                log_digest.str(s);
            }
            if cli_violation(&cases[i], o, seed).is_some() && first_cli {
                first_cli = false;
                violations.push(shrink_cli(&scratch.path, &cases[i], seed));
            }
        }
        if samples.len() < 8 {
            if let Some(c) = cases.first() {
                samples.push(json!({"cli_case": c, "stdout_under_first_key_set": outs[0][0]}));
            }
        }
    }
    // ---- CLI tree cases: seq / conv / run on a project directory across key sets and directory orders
    {
        let cases: Vec<TreeCase> = (0..tr.n_tree).map(|i| gen_tree_case(&d, seed, i, tr.cli_keys)).collect();
        let outs = par_map(cases.len(), workers, |i| run_tree_case(&scratch.path, &format!("{i}"), &cases[i]));
        let mut first = true;
        for (i, o) in outs.iter().enumerate() {
            cli_runs += o.len() as u64;
            for k in &cases[i].keys {
                keysets.insert(k.0);
            }
            for s in o {
                log_digest.str(s);
            }
            if o.iter().any(|x| x.contains("OUTPUT - ")) {
                *probes.entry("cli_seq_runs_with_output_blocks").or_default() += 1;
            }
            if let Some(v) = tree_violation(&cases[i], o, seed) {
                if first {
                    first = false;
                    violations.push(v);
                }
            }
        }
        if let (Some(c), Some(o)) = (cases.first(), outs.first()) {
            samples.push(json!({"cli_tree_case": {"argv": c.argv, "cwd": c.cwd, "files": c.files.keys().collect::<Vec<_>>()}, "observed_under_first_key_set": o[0]}));
        }
    }
    executions += cli_runs;

    // ---- probes that must be non-zero
    let need = ["outputs_with_diacritic_search", "outputs_with_exact_match_tie_grapheme", "init_thread_not_main", "first_call_of_process", "rules_with_two_alphas", "permuted_word_list_calls"];
    for n in need {
        if tier_name == "mini" {
            break;
        }
        if probes.get(n).copied().unwrap_or(0) == 0 {
            harness_error(&format!("probe {n} is zero: the workload missed what it is for"));
        }
    }
    if keysets.len() < 2 {
        harness_error("fewer than two distinct hash-key sets were injected");
    }

    let wall = t0.elapsed().as_secs_f64();
    let mut extra = BTreeMap::new();
    extra.insert("library_call_executions".into(), json!(executions - cli_runs));
    extra.insert("cli_invocations".into(), json!(cli_runs));
    extra.insert("instances_distinct_hash_key_sets".into(), json!(keysets.len()));
    extra.insert("distinct_schedules_by_digest".into(), json!(schedules.len()));
    extra.insert("distinct_calls".into(), json!(distinct.len()));
    extra.insert("probes".into(), json!(probes));
    extra.insert("skipped_hanging_or_crashing_calls".into(), json!(hung_total));
    extra.insert("faults_fired".into(), json!({"hash_keys_replaced": keysets.len(), "io_faults": 0, "note": "the library performs no I/O; the injected nondeterminism is hash keys, initialising thread, call order, thread assignment, warm/fresh process"}));
    extra.insert("runs_per_hour".into(), json!(((executions as f64) / wall * 3600.0) as u64));
    extra.insert("seeds_per_hour".into(), json!(3600.0 / wall));
    extra.insert("simulated_time".into(), json!("none: asca reads no clock; simulated operations are counted instead"));
    extra.insert("event_log_digest".into(), json!(format!("{:016x}", log_digest.0)));
    extra.insert("renderer_sweep".into(), json!({"calls": sweep.len(), "instances": tr.sweep_instances, "exhaustive_over": "every cardinal x every single feature/node toggle, per instance"}));
    extra.insert("real_vs_stub".into(), report::real_vs_stub());
    extra.insert("known_findings_reproduced".into(), json!(violations.iter().filter(|v| known.matches(v).is_some()).map(|v| format!("{}:{}", v.clause, v.signature)).collect::<Vec<_>>()));
    let ev = Evidence {
        property: "C01".into(),
        tier: tr.name.into(),
        seed,
        level: "exploration".into(),
        evaluations: executions,
        distinct_nontrivial: nontrivial.len() as u64,
        rule: "calls = renderer sweep (enumerated) + grammar-generated + corpus cross product, each executed in every instance under an instance-specific order, thread assignment and initialising thread, with immediate repeats, permuted and singleton word lists; a call is distinct by the digest of its (kind, rules, words, aliases) and non-trivial when its outcome is Ok and differs from its input words".into(),
        samples,
        exhaustive: false,
        extra,
        assumptions: vec![
            "std RandomState draws its keys through the interposable getrandom symbol (checked by the seam self-test)".into(),
            "the library consults no other entropy source (no clock, env, address-dependent hashing)".into(),
            "schedule granularity is one library call: the library has no internal synchronisation points".into(),
        ],
        wall_s: wall,
        violations: violations.iter().filter(|v| known.matches(v).is_none()).count() as u64,
    };
    ev.write();
    println!(
        "c01: {} executions, {} distinct calls, {} key sets, {} hung/crashing calls skipped, digest {:016x}, {:.1}s",
        executions,
        distinct.len(),
        keysets.len(),
        hung_total,
        log_digest.0,
        wall
    );
    report::finish("C01", violations, &known)
}

// ------------------------------------------------------------------ replay

pub fn replay(doc: &Value, path: &str) -> i32 {
    let scratch = Scratch::new("c01r");
    let clause = doc.get("clause").and_then(|v| v.as_str()).unwrap_or("").to_string();
    let seed = doc.get("verif_seed").and_then(|v| v.as_u64()).unwrap_or(0);
    if doc.get("kind").and_then(|v| v.as_str()) == Some("cli-tree") {
        let case: TreeCase = serde_json::from_value(doc["case"].clone()).unwrap_or_else(|e| harness_error(&format!("bad replay: {e}")));
        let outs = run_tree_case(&scratch.path, "replay", &case);
        return match tree_violation(&case, &outs, seed) {
            Some(v) => {
                println!("{}", v.detail);
                println!("VIOLATION property=C01 replay={path}");
                1
            }
            None => {
                println!("replay: not reproduced (all instances agree)");
                0
            }
        };
    }
    if doc.get("kind").and_then(|v| v.as_str()) == Some("cli") {
        let case: CliCase = serde_json::from_value(doc["case"].clone()).unwrap_or_else(|e| harness_error(&format!("bad replay: {e}")));
        let outs = run_cli_case(&scratch.path, "replay", &case);
        return match cli_violation(&case, &outs, seed) {
            Some(v) => {
                println!("{}", v.detail);
                println!("VIOLATION property=C01 replay={path}");
                1
            }
            None => {
                println!("replay: not reproduced (all instances agree)");
                0
            }
        };
    }
    let calls: Vec<Call> = serde_json::from_value(doc["calls"].clone()).unwrap_or_else(|e| harness_error(&format!("bad replay: {e}")));
    let insts: Vec<Inst> = serde_json::from_value(doc["instances"].clone()).unwrap_or_else(|e| harness_error(&format!("bad replay: {e}")));
    let scn = Scenario { calls, insts };
    let rr = run_scenario(&scratch.path, &scn, 4);
    let raw = evaluate(&scn, &rr);
    match raw.iter().find(|v| v.clause == clause).or(raw.first()) {
        Some(v) => {
            println!("{}", to_violation(&scn, v, seed).detail);
            println!("VIOLATION property=C01 replay={path}");
            1
        }
        None => {
            println!("replay: not reproduced (all instances agree)");
            0
        }
    }
}
