//! `ascasim selftest [quick|full]` -- prove the seam is alive and the simulator is
//! deterministic before any verdict is trusted (DESIGN.md 2.3).  Failure is exit 2.

use crate::proc::{self, RunSpec, Scratch};

fn fail(msg: &str) -> i32 {
    println!("SELFTEST-FAILED: {msg}");
    2
}

fn probe(root: &str, detrand: u64) -> (String, String) {
    probe_capped(root, detrand, 0)
}

fn probe_capped(root: &str, detrand: u64, cap: u32) -> (String, String) {
    let trace = format!("{root}.probe.trace");
    let _ = std::fs::remove_file(&trace);
    let mut env = proc::sim_env(detrand);
    env.push(("SIM_ROOT".into(), root.to_string()));
    env.push(("SIM_TRACE".into(), trace.clone()));
    if cap > 0 {
        env.push(("SIM_IOCAP".into(), cap.to_string()));
    }
    let exe = proc::self_exe();
    let o = proc::run(RunSpec { exe: &exe, args: vec!["probe-hash".into(), format!("{root}/probe.txt")], cwd: Some(root), env, stdin: vec![], timeout_ms: 20_000 }).expect("spawn probe");
    let t = std::fs::read_to_string(&trace).unwrap_or_default();
    let _ = std::fs::remove_file(&trace);
    (o.stdout, t)
}

fn engine_digest(engine: &str, seed: u64, workers: usize) -> Result<String, String> {
    let exe = proc::self_exe();
    let env = vec![
        ("VERIF_SEED".to_string(), seed.to_string()),
        ("VERIF_WORKERS".to_string(), workers.to_string()),
        ("VERIF_NO_EVIDENCE".to_string(), "1".to_string()),
        ("VERIF_DIR".to_string(), crate::gen::verif_dir()),
        ("VERIF_REPO".to_string(), crate::gen::repo_dir()),
        ("PATH".to_string(), std::env::var("PATH").unwrap_or_default()),
    ];
    let o = proc::run(RunSpec { exe: &exe, args: vec![engine.into(), "mini".into()], cwd: None, env, stdin: vec![], timeout_ms: 600_000 }).map_err(|e| e.to_string())?;
    if o.code != Some(0) {
        return Err(format!("{engine} mini seed {seed} workers {workers}: exit {:?}\n{}", o.code, o.stdout));
    }
    for l in o.stdout.lines() {
        if let Some(i) = l.find("digest ") {
            return Ok(l[i + 7..].split(|c: char| !c.is_ascii_hexdigit()).next().unwrap_or("").to_string());
        }
    }
    Err(format!("{engine}: no digest line in output"))
}

pub fn main_selftest(mode: &str) -> i32 {
    let scratch = Scratch::new("selftest");
    let root = format!("{}/root", scratch.path);
    std::fs::create_dir_all(&root).unwrap();
    std::fs::write(format!("{root}/probe.txt"), "probe\n").unwrap();
    // 1. seam liveness
    let (a1, t1) = probe(&root, 11);
    let (a2, _) = probe(&root, 11);
    let (b1, _) = probe(&root, 12);
    if a1.trim().is_empty() {
        return fail("probe printed nothing");
    }
    if a1 != a2 {
        return fail("same DETRAND_SEED gave two HashMap iteration orders: getrandom is not the only key source");
    }
    if a1 == b1 {
        return fail("different DETRAND_SEED gave the same HashMap iteration order: the getrandom seam is dead");
    }
    if !t1.contains("R getrandom") {
        return fail("interposer traced no getrandom call");
    }
    if !(t1.contains(" open ") && t1.contains(" read fd ")) {
        return fail(&format!("interposer traced no open/read of the probe file: {t1:?}"));
    }
    let (c1, tc) = probe_capped(&root, 11, 2);
    let capped_reads = tc.lines().filter(|l| l.contains(" read fd ")).count();
    if c1 != a1 || capped_reads < 3 {
        return fail(&format!("transfer cap: a 6-byte file under SIM_IOCAP=2 was read in {capped_reads} reads (want >= 3), same output: {}", c1 == a1));
    }
    println!("selftest: seam alive (hash keys controlled, file operations traced, transfer cap in force)");
    // 2. replay determinism: same seed => same event-log digest, in fresh processes, at several worker counts
    let (seeds, worker_counts): (Vec<u64>, Vec<usize>) = if mode == "quick" { (vec![1, 2], vec![2, 16]) } else { ((1..=12).collect(), vec![1, 4, 16]) };
    for engine in ["c01", "c19", "c20"] {
        for &s in &seeds {
            let mut first: Option<String> = None;
            for &w in &worker_counts {
                match engine_digest(engine, s, w) {
                    Ok(d) => match &first {
                        None => first = Some(d),
                        Some(f) => {
                            if *f != d {
                                return fail(&format!("{engine} seed {s}: digest {f} with {} workers but {d} with {w} workers", worker_counts[0]));
                            }
                        }
                    },
                    Err(e) => return fail(&e),
                }
            }
        }
        println!("selftest: {engine} deterministic over seeds {:?} x workers {:?}", seeds, worker_counts);
    }
    println!("selftest: ok");
    0
}
