//! Scenario type and generator for engine c20 (DESIGN.md 4.3): `seq` project trees.

use crate::c19gen::{self, Fmt};
use crate::cli::{FaultClass, Plan};
use crate::gen::Data;
use crate::instance::Group;
use crate::prng::Rng;
use serde::{Deserialize, Serialize};
use std::collections::BTreeMap;

#[derive(Serialize, Deserialize, Clone, Debug, PartialEq, Eq)]
pub struct Entry {
    /// rule file stem as written in the config (relative to the config, no extension)
    pub file: String,
    /// ('!' | '~', names as spelled in the config)
    pub filter: Option<(char, Vec<String>)>,
}

#[derive(Serialize, Deserialize, Clone, Debug, PartialEq, Eq)]
pub struct Tag {
    pub name: String,
    pub parent: Option<String>,
    pub alias: Option<String>,
    pub words: Vec<String>,
    pub entries: Vec<Entry>,
}

#[derive(Serialize, Deserialize, Clone, Debug, PartialEq, Eq)]
pub struct Project {
    /// in config-file order
    pub tags: Vec<Tag>,
    pub rule_files: BTreeMap<String, Vec<Group>>,
    pub word_files: BTreeMap<String, Vec<String>>,
    pub alias_files: BTreeMap<String, (Vec<String>, Vec<String>)>,
    /// Some(kind) when the config must be rejected: "cycle-N" | "dangling" | "duplicate"
    pub bad: Option<String>,
}

#[derive(Serialize, Deserialize, Clone, Debug, PartialEq, Eq)]
pub enum Cmd {
    Seq { path: Option<String>, tag: Option<String>, output: bool, all_steps: bool, overwrite: Option<bool>, output_all: bool },
    ConvTag { path: Option<String>, tag: String, recurse: bool, output: Option<String> },
    /// not an asca invocation: the user edits a project file (sandbox-relative path, new text,
    /// and what the file now means)
    Edit { path: String, text: String, rules: Option<(String, Vec<Group>)>, words: Option<(String, Vec<String>)> },
}

impl Cmd {
    pub fn argv(&self) -> Vec<String> {
        let mut a: Vec<String> = Vec::new();
        match self {
            Cmd::Seq { path, tag, output, all_steps, overwrite, output_all } => {
                a.push("seq".into());
                if let Some(p) = path {
                    a.push(p.clone());
                }
                if let Some(t) = tag {
                    a.push("-t".into());
                    a.push(t.clone());
                }
                if *all_steps {
                    a.push("-a".into());
                }
                if *output {
                    a.push("-o".into());
                }
                match overwrite {
                    Some(true) => a.push("-y".into()),
                    Some(false) => a.push("-n".into()),
                    None => {}
                }
                if *output_all {
                    a.push("-i".into());
                }
            }
            Cmd::Edit { path, .. } => {
                a.push("<edit>".into());
                a.push(path.clone());
            }
            Cmd::ConvTag { path, tag, recurse, output } => {
                a.push("conv".into());
                a.push("tag".into());
                a.push(tag.clone());
                if let Some(p) = path {
                    a.push("-p".into());
                    a.push(p.clone());
                }
                if *recurse {
                    a.push("-r".into());
                }
                if let Some(o) = output {
                    a.push("-o".into());
                    a.push(o.clone());
                }
            }
        }
        a
    }
}

#[derive(Serialize, Deserialize, Clone, Debug, PartialEq, Eq)]
pub struct Inv {
    pub cmd: Cmd,
    /// cwd relative to the sandbox root; the project lives in `proj/`
    pub cwd: String,
    /// the answers scripted for the prompts of this invocation: "y" or "n" for all of them, or a
    /// pattern such as "nyy" that is repeated over the questions in the order asked
    pub answer: String,
    pub detrand: u64,
    pub dirseed: u64,
    pub class: FaultClass,
    pub plan: Plan,
    pub fault_seed: u64,
    pub recover: bool,
    /// see c19gen::Inv::iocap
    #[serde(default)]
    pub iocap: u32,
}

#[derive(Serialize, Deserialize, Clone, Debug, PartialEq, Eq)]
pub struct Scn {
    pub project: Project,
    pub files: BTreeMap<String, String>,
    pub dirs: Vec<String>,
    pub invs: Vec<Inv>,
    /// Some(name) for the hand-written reproductions of known findings (see c20::directed_cases)
    #[serde(default)]
    pub directed: Option<String>,
}

pub const PROJ: &str = "proj";

fn random_case(s: &str, r: &mut Rng) -> String {
    match r.below(4) {
        0 => s.to_string(),
        1 => s.to_uppercase(),
        2 => s.to_lowercase(),
        _ => s.chars().enumerate().map(|(i, c)| if (i + r.below(2)) % 2 == 0 { c.to_ascii_uppercase() } else { c.to_ascii_lowercase() }).collect(),
    }
}

pub fn render_config(p: &Project, r: &mut Rng) -> String {
    let mut s = String::new();
    let crlf = r.chance(1, 6);
    if r.chance(1, 2) {
        s.push_str("# project config\n");
    }
    for t in &p.tags {
        if r.chance(1, 4) {
            s.push_str("# a sequence\n");
        }
        s.push('@');
        s.push_str(&t.name);
        let mut heads: Vec<String> = Vec::new();
        if let Some(pa) = &t.parent {
            heads.push(format!("%{pa}"));
        }
        if let Some(al) = &t.alias {
            heads.push(format!("${al}{}", if r.chance(1, 6) { ".alias" } else { "" }));
        }
        if heads.len() == 2 && r.chance(1, 2) {
            heads.swap(0, 1);
        }
        for h in heads {
            s.push(' ');
            s.push_str(&h);
        }
        if !t.words.is_empty() {
            s.push_str(if r.chance(1, 2) { " [" } else { "[" });
            let list: Vec<String> = t.words.iter().map(|w| format!("\"{w}{}\"", if r.chance(1, 8) { ".wsca" } else { "" })).collect();
            s.push_str(&list.join(if r.chance(1, 2) { ", " } else { "," }));
            if r.chance(1, 5) {
                s.push(',');
            }
            s.push(']');
        }
        s.push(':');
        let multiline = r.chance(1, 2);
        for (i, e) in t.entries.iter().enumerate() {
            if multiline && i > 0 && r.chance(1, 6) {
                s.push_str("\n    # next file");
            }
            s.push_str(if multiline { "\n    " } else { " " });
            s.push_str(&format!("\"{}{}\"", e.file, if r.chance(1, 8) { ".rsca" } else { "" }));
            if let Some((k, names)) = &e.filter {
                s.push_str(&format!(" {k} {{"));
                let list: Vec<String> = names.iter().map(|n| format!("\"{n}\"")).collect();
                s.push_str(&list.join(if multiline && r.chance(1, 4) { ",\n        " } else { ", " }));
                if r.chance(1, 6) {
                    s.push(',');
                }
                s.push('}');
            }
            if i + 1 < t.entries.len() || r.chance(1, 3) {
                s.push(',');
                if multiline && r.chance(1, 10) {
                    s.push_str("  # see notes");
                }
            }
        }
        s.push('\n');
        if r.chance(1, 2) {
            s.push('\n');
        }
    }
    if crlf {
        s = s.replace('\n', "\r\n");
    }
    s
}

const TAGS: [&str; 13] = ["proto", "latin", "old-spanish", "spanish", "alpha", "beta", "gamma_2", "pgmc", "nwg", "x1", "lat", "PGmc", "Old_High-German"];

/// word files of a seq project always hold at least one entry (an empty word list is an
/// error of its own: 'No input words defined')
fn nonempty_words(d: &Data, r: &mut Rng) -> Vec<String> {
    loop {
        let w = c19gen::gen_words(d, r);
        if !w.is_empty() {
            return w;
        }
    }
}

pub fn gen_project(d: &Data, r: &mut Rng, bad: Option<&str>) -> Project {
    // the stated quantifier is 1-4 tags; one project in ten is larger
    let ntags = if r.chance(1, 10) { r.range(5, 6) } else { r.range(1, 4) };
    let mut names: Vec<&str> = TAGS.to_vec();
    r.shuffle(&mut names);
    // rule files
    let nfiles = r.range(1, 3);
    // stems that differ only by their directory are different files
    // ... and a rule file may be shared from outside the project directory
    let mut stems = vec!["global", "rules/early", "late", "rules/shared-1", "early", "rules/late", "../global", "../shared/early"];
    r.shuffle(&mut stems);
    let mut rule_files = BTreeMap::new();
    let mut stem_list: Vec<String> = Vec::new();
    for i in 0..nfiles {
        let wild = r.chance(1, 6);
        let groups = c19gen::gen_groups(d, r, 4, wild);
        rule_files.insert(stems[i].to_string(), groups);
        stem_list.push(stems[i].to_string());
    }
    // word files
    let mut word_files = BTreeMap::new();
    let wstems = ["lex", "lexicon/core", "../shared/loans", "extra"];
    let nw = r.range(1, 4);
    let many_word_files = r.chance(1, 8);
    let mut wlist: Vec<String> = Vec::new();
    for i in 0..nw {
        word_files.insert(wstems[i].to_string(), nonempty_words(d, r));
        wlist.push(wstems[i].to_string());
    }
    // optional deromaniser-only alias on root tags
    let mut alias_files = BTreeMap::new();
    let with_alias = r.chance(1, 3);
    // two alias files may share their file name and differ in their directory
    let (rom, leafrom) = if r.chance(1, 4) { ("west/rom", "east/rom") } else { ("rom", "leafrom") };
    if with_alias {
        let n = r.range(1, 2);
        let into: Vec<String> = (0..n).map(|_| r.pick(&crate::gen::ALIAS_INTO).to_string()).collect();
        alias_files.insert(rom.to_string(), (into, vec![]));
    }
    let mut tags: Vec<Tag> = Vec::new();
    for ti in 0..ntags {
        let parent = if ti > 0 && r.chance(3, 4) { Some(tags[r.below(ti)].name.clone()) } else { None };
        let words = if parent.is_none() {
            let k = r.range(1, (if many_word_files { 3 } else { 2 }).min(wlist.len()));
            let mut w = wlist.clone();
            r.shuffle(&mut w);
            w.truncate(k);
            w
        } else if r.chance(1, 3) {
            vec![r.pick(&wlist).clone()]
        } else {
            vec![]
        };
        let alias = if with_alias && ((parent.is_none() && r.chance(3, 4)) || (parent.is_some() && r.chance(1, 5))) { Some(rom.to_string()) } else { None };
        let ne = if r.chance(1, 10) { r.range(4, 5) } else { r.range(1, 3) };
        let mut entries = Vec::new();
        for _ in 0..ne {
            let file = r.pick(&stem_list).clone();
            let groups = &rule_files[&file];
            let named: Vec<&Group> = groups.iter().collect();
            let filter = if r.chance(1, 2) && !named.is_empty() {
                let k = if r.chance(1, 2) { '!' } else { '~' };
                let mut idx: Vec<usize> = (0..named.len()).collect();
                r.shuffle(&mut idx);
                let cnt = r.range(1, named.len().min(4));
                idx.truncate(cnt);
                let mut list: Vec<String> = idx.iter().map(|&i| random_case(&named[i].name, r)).collect();
                if k == '~' && r.chance(1, 5) {
                    // the list is an ordered sequence: a group may be named (and applied) again
                    let again = random_case(&named[idx[r.below(idx.len())]].name, r);
                    list.push(again);
                }
                Some((k, list))
            } else {
                None
            };
            entries.push(Entry { file, filter });
        }
        tags.push(Tag { name: names[ti].to_string(), parent, alias, words, entries });
    }
    if r.chance(1, 6) {
        // a tag nobody pipes from may also romanise its output (@into and @from)
        let leaves: Vec<usize> = (0..tags.len()).filter(|&i| !tags.iter().any(|t| t.parent.as_deref() == Some(tags[i].name.as_str()))).collect();
        if !leaves.is_empty() {
            let li = *r.pick(&leaves);
            let n = r.range(1, 2);
            let into: Vec<String> = if r.chance(1, 2) { vec![r.pick(&crate::gen::ALIAS_INTO).to_string()] } else { vec![] };
            let from: Vec<String> = (0..n).map(|_| r.pick(&crate::gen::ALIAS_FROM).to_string()).collect();
            alias_files.insert(leafrom.to_string(), (into, from));
            tags[li].alias = Some(leafrom.to_string());
        }
    }
    // the config lists tags in a random order (a child may precede its parent)
    if r.chance(1, 2) {
        r.shuffle(&mut tags);
    }
    let mut bad_kind = None;
    match bad {
        Some("cycle") => {
            // close a reference cycle of length 1..=min(4, ntags)
            let len = r.range(1, tags.len().min(4));
            let mut idx: Vec<usize> = (0..tags.len()).collect();
            r.shuffle(&mut idx);
            idx.truncate(len);
            for k in 0..len {
                let next = tags[idx[(k + 1) % len]].name.clone();
                tags[idx[k]].parent = Some(next);
            }
            bad_kind = Some(format!("cycle-{len}"));
        }
        Some("dangling") => {
            let i = r.below(tags.len());
            tags[i].parent = Some("nowhere".into());
            bad_kind = Some("dangling".into());
        }
        Some("duplicate") => {
            let mut t = tags[r.below(tags.len())].clone();
            if r.chance(1, 2) {
                t.parent = None;
            }
            if t.words.is_empty() && t.parent.is_none() {
                t.words = vec![wlist[0].clone()];
            }
            let at = r.below(tags.len() + 1);
            tags.insert(at, t);
            bad_kind = Some("duplicate".into());
        }
        Some("two-configs") => {
            // nothing wrong with the config itself: the directory holds a second one
            bad_kind = Some("two-configs".into());
        }
        _ => {}
    }
    Project { tags, rule_files, word_files, alias_files, bad: bad_kind }
}

pub fn render_files(p: &Project, r: &mut Rng) -> (BTreeMap<String, String>, Vec<String>) {
    let mut files = BTreeMap::new();
    let fmt = Fmt::draw(r);
    let conf_name = *r.pick(&["config.asca", "project.asca", "fam.asca"]);
    files.insert(format!("{PROJ}/{conf_name}"), render_config(p, r));
    if p.bad.as_deref() == Some("two-configs") {
        let other = *r.pick(&["other.asca", "backup.asca", "a.asca"]);
        files.insert(format!("{PROJ}/{other}"), render_config(p, r));
    } else if r.chance(1, 8) {
        // not configs: the extension is not `asca`
        let decoy = *r.pick(&["old.asca~", "config.asca.bak", "asca", "notes.ascaa"]);
        files.insert(format!("{PROJ}/{decoy}"), "@nothing [\"lex\"]: \"nowhere\"\n".into());
    }
    for (stem, groups) in &p.rule_files {
        files.insert(crate::cli::resolve(PROJ, &format!("{stem}.rsca")), c19gen::render_rsca(groups, &fmt, r));
    }
    for (stem, words) in &p.word_files {
        files.insert(crate::cli::resolve(PROJ, &format!("{stem}.wsca")), c19gen::render_wsca(words, &fmt, r));
    }
    for (stem, (into, from)) in &p.alias_files {
        files.insert(format!("{PROJ}/{stem}.alias"), c19gen::render_alias(into, from, &fmt, false, r));
    }
    if r.chance(1, 3) {
        files.insert(format!("{PROJ}/README.md"), "notes\n".into());
    }
    (files, vec![PROJ.to_string(), "wd".to_string()])
}

pub fn gen_scn(d: &Data, r: &mut Rng, faulty: bool, bad: Option<&str>) -> Scn {
    let project = gen_project(d, r, bad);
    let (mut files, dirs) = render_files(&project, r);
    let n = if bad.is_some() { r.range(1, 2) } else { r.range(1, 5) };
    let tag_names: Vec<String> = project.tags.iter().map(|t| t.name.clone()).collect();
    let mut invs = Vec::new();
    let mut out_counter = 0;
    for step in 0..n {
        let from_wd = r.chance(1, 5);
        let cwd = if from_wd { "wd".to_string() } else { PROJ.to_string() };
        let path = if from_wd {
            Some(format!("../{PROJ}{}", if r.chance(1, 3) { "/" } else { "" }))
        } else if r.chance(1, 6) {
            Some((*r.pick(&[".", "./", "../proj"])).to_string())
        } else {
            None
        };
        let last = step + 1 == n;
        let cmd = if r.chance(3, 4) || (last && bad.is_none() && r.chance(1, 2)) {
            let output = r.chance(4, 5);
            let overwrite = if output {
                match r.below(4) {
                    0 | 1 => Some(true),
                    2 => Some(false),
                    _ => None,
                }
            } else {
                None
            };
            Cmd::Seq {
                path,
                tag: if r.chance(1, 2) { Some(r.pick(&tag_names).clone()) } else if r.chance(1, 20) { Some("no-such-tag".into()) } else { None },
                output,
                all_steps: r.chance(1, 4),
                overwrite,
                output_all: output && r.chance(1, 2),
            }
        } else {
            out_counter += 1;
            Cmd::ConvTag {
                path,
                tag: r.pick(&tag_names).clone(),
                recurse: r.chance(2, 3),
                output: if r.chance(2, 3) { Some(format!("exp{}.json", if r.chance(1, 3) { 1 } else { out_counter })) } else { None },
            }
        };
        let class = if !faulty {
            FaultClass::None
        } else {
            match r.below(10) {
                0..=1 => FaultClass::None,
                2..=4 => FaultClass::Benign,
                5..=7 => FaultClass::Hard,
                _ => FaultClass::Crash,
            }
        };
        let fault_seed = r.next_u64();
        invs.push(Inv {
            cmd,
            cwd,
            answer: match fault_seed % 7 {
                // the questions of one invocation need not all get the same answer
                0 => "ny".into(),
                1 => "yn".into(),
                2 => "nyy".into(),
                _ => if r.chance(1, 2) { "y".into() } else { "n".into() },
            },
            detrand: r.next_u64() | 1,
            dirseed: if faulty || r.chance(1, 2) { r.next_u64() | 1 } else { 0 },
            class,
            plan: vec![],
            fault_seed,
            recover: matches!(class, FaultClass::Hard | FaultClass::Crash) && r.chance(1, 2),
            iocap: crate::cli::cap_from(fault_seed),
        });
    }
    if bad.is_none() && invs.len() >= 2 && r.chance(1, 3) {
        // the user edits a rule file (same group names, other rules) or a word file between two runs
        let at = r.range(1, invs.len() - 1);
        let fmt = Fmt::draw(r);
        let cmd = if r.chance(2, 3) {
            let stems: Vec<String> = project.rule_files.keys().cloned().collect();
            let stem = r.pick(&stems).clone();
            let mut groups = project.rule_files[&stem].clone();
            for g in groups.iter_mut() {
                if r.chance(2, 3) {
                    let nr = r.range(1, 3);
                    g.rule = (0..nr).map(|_| c19gen::safe_rule(d, r, false)).collect();
                }
            }
            Cmd::Edit { path: crate::cli::resolve(PROJ, &format!("{stem}.rsca")), text: c19gen::render_rsca(&groups, &fmt, r), rules: Some((stem, groups)), words: None }
        } else {
            let stems: Vec<String> = project.word_files.keys().cloned().collect();
            let stem = r.pick(&stems).clone();
            let words = match r.below(3) {
                0 => nonempty_words(d, r),
                1 => {
                    let mut w = project.word_files[&stem].clone();
                    w.push(c19gen::safe_word(d, r));
                    w
                }
                _ => {
                    let mut w = project.word_files[&stem].clone();
                    if w.len() > 1 {
                        w.pop();
                    }
                    w
                }
            };
            Cmd::Edit { path: crate::cli::resolve(PROJ, &format!("{stem}.wsca")), text: c19gen::render_wsca(&words, &fmt, r), rules: None, words: Some((stem, words)) }
        };
        invs.insert(at, Inv { cmd, cwd: PROJ.to_string(), answer: "y".into(), detrand: 1, dirseed: 0, class: FaultClass::None, plan: vec![], fault_seed: 0, recover: false, iocap: 0 });
    }
    if faulty && bad.is_none() {
        // the final-state invariant: whatever happened before, one fault-free `seq -o -y` puts things right
        invs.push(Inv {
            cmd: Cmd::Seq { path: None, tag: None, output: true, all_steps: false, overwrite: Some(true), output_all: r.chance(1, 2) },
            cwd: PROJ.to_string(),
            answer: "y".into(),
            detrand: r.next_u64() | 1,
            dirseed: r.next_u64() | 1,
            class: FaultClass::None,
            plan: vec![],
            fault_seed: 0,
            recover: false,
            iocap: 0,
        });
    }
    if bad.is_none() && r.chance(1, 25) {
        // a regular file sits where a tag's output directory has to be (or where `out` has to be)
        let t = r.pick(&tag_names).clone();
        let path = if r.chance(1, 4) { format!("{PROJ}/out") } else { format!("{PROJ}/out/{t}") };
        files.insert(path, "stale\n".into());
        for inv in invs.iter_mut() {
            inv.class = FaultClass::None;
            inv.recover = false;
        }
    }
    Scn { project, files, dirs, invs, directed: None }
}
