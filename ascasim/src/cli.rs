//! Shared machinery for the two command-line engines: executing one `asca` invocation
//! under the interposer (hash keys, directory order, fault plan), reading back its
//! operation trace, snapshotting/restoring the simulated disk, choosing fault plans,
//! and independent readers for the documented file formats.

use crate::gen::harness_error;
use crate::instance::Group;
use crate::prng::Rng;
use crate::proc::{self, RunOut, RunSpec};
use serde::{Deserialize, Serialize};
use std::collections::BTreeMap;

#[derive(Clone, Debug)]
pub struct Op {
    pub idx: usize,
    pub kind: String,
    pub arg: String,
    pub n: String,
    pub ret: String,
    pub fault: String,
}

#[derive(Clone, Debug)]
pub struct InvOut {
    pub out: RunOut,
    pub ops: Vec<Op>,
    pub faults_fired: u64,
    pub crashed: bool,
    pub getrandom_calls: u64,
}

pub type Plan = Vec<(usize, String)>;

pub fn plan_string(p: &Plan) -> String {
    p.iter().map(|(i, k)| format!("{i}:{k}")).collect::<Vec<_>>().join(",")
}

pub const INV_TIMEOUT_MS: u64 = 20_000;

thread_local! {
    /// the transfer cap (`SIM_IOCAP`) in force for the executions made by this worker thread
    static IOCAP: std::cell::Cell<u32> = const { std::cell::Cell::new(0) };
}
pub fn set_iocap(c: u32) {
    IOCAP.with(|x| x.set(c));
}
/// an invocation's transfer cap, taken from bits of a number the generator has drawn anyway
pub fn cap_from(x: u64) -> u32 {
    const CAPS: [u32; 7] = [1, 2, 3, 5, 8, 64, 4096];
    if (x >> 7) % 9 == 0 {
        CAPS[((x >> 20) % 7) as usize]
    } else {
        0
    }
}

/// Execute one invocation of the real binary with cwd = root/cwd_rel.
pub fn exec(root: &str, cwd_rel: &str, args: &[String], stdin: &str, detrand: u64, dirseed: u64, plan: &Plan) -> InvOut {
    let trace = format!("{root}.trace");
    let _ = std::fs::remove_file(&trace);
    let cwd = if cwd_rel.is_empty() { root.to_string() } else { format!("{root}/{cwd_rel}") };
    let mut env = proc::sim_env(detrand);
    env.push(("SIM_ROOT".into(), root.to_string()));
    env.push(("SIM_TRACE".into(), trace.clone()));
    env.push(("SIM_DIRSEED".into(), dirseed.to_string()));
    if !plan.is_empty() {
        env.push(("SIM_PLAN".into(), plan_string(plan)));
    }
    let cap = IOCAP.with(|x| x.get());
    if cap > 0 {
        env.push(("SIM_IOCAP".into(), cap.to_string()));
    }
    let t_dbg = std::time::Instant::now();
    let out = proc::run(RunSpec { exe: &proc::asca_bin(), args: args.to_vec(), cwd: Some(&cwd), env, stdin: stdin.as_bytes().to_vec(), timeout_ms: INV_TIMEOUT_MS })
        .unwrap_or_else(|e| harness_error(&format!("spawn asca: {e}")));
    if t_dbg.elapsed().as_millis() > 1500 && std::env::var("VERIF_DEBUG").is_ok() {
        eprintln!("DEBUG slow invocation {} ms: {:?} plan {:?} in {}", t_dbg.elapsed().as_millis(), args, plan, cwd);
    }
    let txt = std::fs::read_to_string(&trace).unwrap_or_default();
    let _ = std::fs::remove_file(&trace);
    let mut ops = Vec::new();
    let mut faults_fired = 0;
    let mut crashed = false;
    let mut getrandom_calls = 0;
    for line in txt.lines() {
        let f: Vec<&str> = line.split(' ').collect();
        if f.is_empty() {
            continue;
        }
        if f[0] == "END" {
            crashed = f.get(1) == Some(&"crash");
            for t in &f[2..] {
                if let Some(v) = t.strip_prefix("faults=") {
                    faults_fired = v.parse().unwrap_or(0);
                }
                if let Some(v) = t.strip_prefix("getrandom=") {
                    getrandom_calls = v.parse().unwrap_or(0);
                }
            }
            continue;
        }
        if f[0] == "R" {
            continue;
        }
        if f.len() >= 6 {
            if let Ok(idx) = f[0].parse::<usize>() {
                // the path argument may contain spaces: fields are idx kind <arg...> n ret fault
                let n = f.len();
                ops.push(Op { idx, kind: f[1].to_string(), arg: f[2..n - 3].join(" "), n: f[n - 3].to_string(), ret: f[n - 2].to_string(), fault: f[n - 1].to_string() });
            }
        }
    }
    InvOut { out, ops, faults_fired, crashed, getrandom_calls }
}

// ------------------------------------------------------------------ the simulated disk

/// path relative to root -> Some(bytes) for a file, None for a directory
pub type Snap = BTreeMap<String, Option<Vec<u8>>>;

pub fn snapshot(root: &str) -> Snap {
    let mut s = Snap::new();
    fn walk(root: &str, rel: &str, s: &mut Snap) {
        let dir = if rel.is_empty() { root.to_string() } else { format!("{root}/{rel}") };
        let rd = std::fs::read_dir(&dir).unwrap_or_else(|e| harness_error(&format!("snapshot {dir}: {e}")));
        let mut names: Vec<(String, bool)> = rd
            .filter_map(|e| e.ok())
            .map(|e| (e.file_name().to_string_lossy().into_owned(), e.file_type().map(|t| t.is_dir()).unwrap_or(false)))
            .collect();
        names.sort();
        for (n, is_dir) in names {
            let r = if rel.is_empty() { n.clone() } else { format!("{rel}/{n}") };
            if is_dir {
                s.insert(r.clone(), None);
                walk(root, &r, s);
            } else {
                let b = std::fs::read(format!("{root}/{r}")).unwrap_or_else(|e| harness_error(&format!("snapshot read {r}: {e}")));
                s.insert(r, Some(b));
            }
        }
    }
    walk(root, "", &mut s);
    s
}

pub fn restore(root: &str, snap: &Snap) {
    let _ = std::fs::remove_dir_all(root);
    std::fs::create_dir_all(root).unwrap_or_else(|e| harness_error(&format!("restore mkdir {root}: {e}")));
    for (p, c) in snap {
        let full = format!("{root}/{p}");
        match c {
            None => std::fs::create_dir_all(&full).unwrap_or_else(|e| harness_error(&format!("restore mkdir {full}: {e}"))),
            Some(b) => {
                if let Some(parent) = std::path::Path::new(&full).parent() {
                    let _ = std::fs::create_dir_all(parent);
                }
                std::fs::write(&full, b).unwrap_or_else(|e| harness_error(&format!("restore write {full}: {e}")))
            }
        }
    }
}

pub fn write_tree(root: &str, files: &BTreeMap<String, String>, dirs: &[String]) {
    let _ = std::fs::remove_dir_all(root);
    std::fs::create_dir_all(root).unwrap_or_else(|e| harness_error(&format!("mkdir {root}: {e}")));
    for d in dirs {
        std::fs::create_dir_all(format!("{root}/{d}")).unwrap_or_else(|e| harness_error(&format!("mkdir {d}: {e}")));
    }
    for (p, c) in files {
        let full = format!("{root}/{p}");
        if let Some(parent) = std::path::Path::new(&full).parent() {
            let _ = std::fs::create_dir_all(parent);
        }
        std::fs::write(&full, c).unwrap_or_else(|e| harness_error(&format!("write {full}: {e}")));
    }
}

/// lexical normalisation of cwd_rel + "/" + p into a path relative to root ("a/../b" -> "b")
pub fn resolve(cwd_rel: &str, p: &str) -> String {
    let mut parts: Vec<&str> = if cwd_rel.is_empty() { vec![] } else { cwd_rel.split('/').collect() };
    for seg in p.split('/') {
        match seg {
            "" | "." => {}
            ".." => {
                parts.pop();
            }
            s => parts.push(s),
        }
    }
    parts.join("/")
}

// ------------------------------------------------------------------ fault plans

pub const BENIGN: [&str; 3] = ["SHORT", "SHORT1", "EINTR"];

/// fault kinds applicable to an operation, split into (benign, hard, crash)
pub fn applicable(op: &Op) -> (Vec<&'static str>, Vec<&'static str>, Vec<&'static str>) {
    match op.kind.as_str() {
        "open" => (vec!["EINTR"], vec!["EACCES", "EMFILE", "EIO"], vec!["CRASH_BEFORE", "CRASH_AFTER"]),
        "openw" => (vec!["EINTR"], vec!["EACCES", "ENOSPC", "EMFILE"], vec!["CRASH_BEFORE", "CRASH_AFTER"]),
        "read" => {
            let got: i64 = op.ret.parse().unwrap_or(0);
            if got > 1 {
                (vec!["SHORT", "SHORT1", "EINTR"], vec!["EIO"], vec!["CRASH_BEFORE", "CRASH_AFTER"])
            } else {
                (vec!["EINTR"], vec!["EIO"], vec!["CRASH_BEFORE"])
            }
        }
        "write" => {
            let n: i64 = op.n.parse().unwrap_or(0);
            if n > 1 {
                (vec!["SHORT", "SHORT1", "EINTR"], vec!["ENOSPC", "EIO"], vec!["TORN", "CRASH_BEFORE", "CRASH_AFTER"])
            } else {
                (vec!["EINTR"], vec!["ENOSPC", "EIO"], vec!["CRASH_BEFORE", "CRASH_AFTER"])
            }
        }
        "mkdir" => (vec![], vec!["EACCES", "ENOSPC", "EIO"], vec!["CRASH_BEFORE", "CRASH_AFTER"]),
        "opendir" => (vec![], vec!["EACCES", "EMFILE"], vec!["CRASH_BEFORE"]),
        "stat" => (vec![], vec![], vec!["CRASH_BEFORE"]),
        "readdir" => (vec![], vec![], vec!["CRASH_BEFORE"]),
        _ => (vec![], vec![], vec![]),
    }
}

#[derive(Clone, Copy, PartialEq, Eq, Debug, Serialize, Deserialize)]
pub enum FaultClass {
    None,
    Benign,
    Hard,
    Crash,
}

/// Draw a plan of the given class from a recorded trace; faults are biased towards
/// the first data read of each input file and towards output writes.
pub fn draw_plan(ops: &[Op], class: FaultClass, r: &mut Rng) -> Plan {
    let mut cands: Vec<(usize, &'static str, u32)> = Vec::new();
    for op in ops {
        let (b, h, c) = applicable(op);
        let kinds = match class {
            FaultClass::Benign => b,
            FaultClass::Hard => h,
            FaultClass::Crash => c,
            FaultClass::None => vec![],
        };
        let weight = match op.kind.as_str() {
            // byte-wise JSON reads come by the hundred per invocation: one in fifty is a candidate
            "read" if op.n == "1" => {
                if op.idx % 50 == 0 {
                    16
                } else {
                    0
                }
            }
            "read" if op.ret.parse::<i64>().unwrap_or(0) > 0 => 16,
            "write" | "openw" | "mkdir" => 16,
            "open" | "opendir" => 8,
            _ => 2,
        };
        if weight == 0 {
            continue;
        }
        for k in kinds {
            cands.push((op.idx, k, weight));
        }
    }
    if cands.is_empty() {
        return vec![];
    }
    let total: u32 = cands.iter().map(|c| c.2).sum();
    let n = match class {
        FaultClass::Benign => r.range(1, 3),
        _ => 1,
    };
    let mut plan: Plan = Vec::new();
    for _ in 0..n {
        let mut t = (r.next_u64() % total as u64) as u32;
        for c in &cands {
            if t < c.2 {
                if !plan.iter().any(|(i, _)| *i == c.0) {
                    plan.push((c.0, c.1.to_string()));
                }
                break;
            }
            t -= c.2;
        }
    }
    // a hard fault or a crash is sometimes preceded or followed by a harmless one (two things
    // going wrong in one invocation); the verdict still follows the stronger class
    if matches!(class, FaultClass::Hard | FaultClass::Crash) && r.chance(1, 3) {
        let extra = draw_plan(ops, FaultClass::Benign, r);
        for e in extra.into_iter().take(1) {
            if !plan.iter().any(|(i, _)| *i == e.0) {
                plan.push(e);
            }
        }
    }
    plan.sort();
    plan
}

/// every single-fault placement for a trace (for the enumerated sub-space)
pub fn all_single_faults(ops: &[Op]) -> Vec<(usize, &'static str, FaultClass)> {
    let mut v = Vec::new();
    // serde_json::from_reader on an unbuffered File reads a JSON project one byte at a
    // time (hundreds of read operations): those are strided, everything else is complete
    let byte_reads = ops.iter().filter(|o| o.kind == "read" && o.n == "1").count();
    let stride = (byte_reads / 24).max(1);
    let mut seen_byte_reads = 0usize;
    for op in ops {
        if op.kind == "read" && op.n == "1" {
            seen_byte_reads += 1;
            if seen_byte_reads % stride != 1 && stride > 1 {
                continue;
            }
        }
        let (b, h, c) = applicable(op);
        for k in b {
            v.push((op.idx, k, FaultClass::Benign));
        }
        for k in h {
            v.push((op.idx, k, FaultClass::Hard));
        }
        for k in c {
            v.push((op.idx, k, FaultClass::Crash));
        }
    }
    v
}

// ------------------------------------------------------------------ independent readers (from doc/doc-cli.md)

/// .wsca: one word per line, `#` starts a comment, surrounding blanks are not part of the word
pub fn read_wsca(text: &str) -> Vec<String> {
    text.lines().map(|l| l.split('#').next().unwrap_or("").trim().to_string()).collect()
}

pub fn strip_trailing_empty(mut v: Vec<String>) -> Vec<String> {
    while v.last().map(|s| s.is_empty()).unwrap_or(false) {
        v.pop();
    }
    v
}

/// .rsca: `@ title`, then sub rules (indentation and empty lines allowed), then `#` description lines
pub fn read_rsca(text: &str) -> Vec<Group> {
    let mut groups: Vec<Group> = Vec::new();
    let mut cur: Option<Group> = None;
    for raw in text.lines() {
        let line = raw.trim();
        if let Some(rest) = line.strip_prefix('@') {
            if let Some(g) = cur.take() {
                groups.push(g);
            }
            cur = Some(Group { name: rest.trim().to_string(), rule: vec![], description: String::new() });
        } else if let Some(rest) = line.strip_prefix('#') {
            let g = cur.get_or_insert_with(|| Group::anon(vec![]));
            if !g.description.is_empty() {
                g.description.push('\n');
            }
            g.description.push_str(rest.trim());
        } else if !line.is_empty() {
            let g = cur.get_or_insert_with(|| Group::anon(vec![]));
            g.rule.push(line.to_string());
        }
    }
    if let Some(g) = cur.take() {
        groups.push(g);
    }
    groups
}

/// .alias: `@into` / `@from` sections of alias rules; `#` comments and empty lines carry nothing
pub fn read_alias(text: &str) -> (Vec<String>, Vec<String>) {
    let mut into = Vec::new();
    let mut from = Vec::new();
    let mut sect = 0;
    for raw in text.lines() {
        let line = raw.trim();
        if line.starts_with("@into") {
            sect = 1;
        } else if line.starts_with("@from") {
            sect = 2;
        } else if line.is_empty() || line.starts_with('#') {
        } else if sect == 1 {
            into.push(line.to_string());
        } else if sect == 2 {
            from.push(line.to_string());
        }
    }
    (into, from)
}

pub fn nonempty_groups(g: &[Group]) -> Vec<Group> {
    g.iter().filter(|x| !(x.name.is_empty() && x.rule.is_empty() && x.description.is_empty())).cloned().collect()
}

pub fn nonempty_lines(v: &[String]) -> Vec<String> {
    v.iter().filter(|s| !s.is_empty()).cloned().collect()
}

#[derive(Serialize, Deserialize, Clone, Debug, PartialEq, Eq, Default)]
pub struct Model {
    #[serde(default)]
    pub into: Vec<String>,
    #[serde(default)]
    pub from: Vec<String>,
    pub words: Vec<String>,
    pub rules: Vec<Group>,
}

impl Model {
    pub fn normalised(&self) -> Model {
        Model { into: nonempty_lines(&self.into), from: nonempty_lines(&self.from), words: self.words.clone(), rules: nonempty_groups(&self.rules) }
    }
}

/// the model of the prompt, as the tool documents it in its own question (`[y/N]`):
/// first character y/Y = yes, n/N or an empty line = no, anything else asks again.
/// Returns (answer, number of lines consumed).
pub fn prompt_answer(answers: &[String], from: usize) -> (bool, usize) {
    let mut i = from;
    while i < answers.len() {
        let a = &answers[i];
        i += 1;
        match a.chars().next() {
            Some('y') | Some('Y') => return (true, i),
            Some('n') | Some('N') | None => return (false, i),
            _ => {}
        }
    }
    (false, i)
}

pub fn stdin_script(answers: &[String]) -> String {
    // scripted answers followed by padding, so that the tool never reads EOF
    let mut s = String::new();
    for a in answers {
        s.push_str(a);
        s.push('\n');
    }
    for _ in 0..8 {
        s.push_str("n\n");
    }
    s
}
