//! Workload generators shared by the three engines (DESIGN.md section 3).
//! Everything here is a pure function of the `Rng` handed in.

use crate::instance::{Call, Group};
use crate::prng::Rng;
use serde::Deserialize;
use std::collections::BTreeMap;

#[derive(Deserialize)]
struct CorpusFile {
    test_rules: Vec<String>,
    test_words: Vec<String>,
    example_rules: Vec<String>,
    example_words: Vec<String>,
    #[serde(default)]
    doc_rules: Vec<String>,
    #[serde(default)]
    doc_into: Vec<String>,
    #[serde(default)]
    doc_from: Vec<String>,
}

pub struct Data {
    pub test_rules: Vec<String>,
    pub test_words: Vec<String>,
    pub example_rules: Vec<String>,
    pub example_words: Vec<String>,
    /// rule / alias lines taken from doc/doc.md that the library accepts
    pub doc_rules: Vec<String>,
    pub doc_into: Vec<String>,
    pub doc_from: Vec<String>,
    /// all cardinal graphemes, in file order
    pub cardinals: Vec<String>,
    /// cardinals that are a single char (safe building blocks for words)
    pub simple_cardinals: Vec<String>,
    /// groups of cardinals that share one feature bundle (exact-match ties)
    pub tie_groups: Vec<Vec<String>>,
    /// the diacritic characters of src/diacritics.json
    pub diacritics: Vec<char>,
}

pub fn verif_dir() -> String {
    std::env::var("VERIF_DIR").unwrap_or_else(|_| "/verif".to_string())
}
pub fn repo_dir() -> String {
    std::env::var("VERIF_REPO").unwrap_or_else(|_| "/repo".to_string())
}

pub fn harness_error(msg: &str) -> ! {
    println!("HARNESS-ERROR: {msg}");
    eprintln!("HARNESS-ERROR: {msg}");
    std::process::exit(2)
}

impl Data {
    pub fn load() -> Data {
        let cpath = format!("{}/corpus/corpus.json", verif_dir());
        let txt = std::fs::read_to_string(&cpath).unwrap_or_else(|e| harness_error(&format!("read {cpath}: {e}")));
        let cf: CorpusFile = serde_json::from_str(&txt).unwrap_or_else(|e| harness_error(&format!("parse {cpath}: {e}")));
        let kpath = format!("{}/src/cardinals.json", repo_dir());
        let ktxt = std::fs::read_to_string(&kpath).unwrap_or_else(|e| harness_error(&format!("read {kpath}: {e}")));
        // keep file order: parse with serde_json's Value would sort (BTreeMap); scan keys by hand
        let v: serde_json::Value = serde_json::from_str(&ktxt).unwrap_or_else(|e| harness_error(&format!("parse {kpath}: {e}")));
        let obj = v.as_object().unwrap_or_else(|| harness_error("cardinals.json is not an object"));
        let mut cardinals: Vec<String> = obj.keys().cloned().collect();
        cardinals.sort();
        let mut by_bundle: BTreeMap<String, Vec<String>> = BTreeMap::new();
        for (k, val) in obj {
            by_bundle.entry(val.to_string()).or_default().push(k.clone());
        }
        let mut tie_groups: Vec<Vec<String>> = by_bundle.into_values().filter(|g| g.len() > 1).collect();
        for g in tie_groups.iter_mut() {
            g.sort();
        }
        tie_groups.sort();
        let simple_cardinals = cardinals.iter().filter(|c| c.chars().count() == 1).cloned().collect();
        let dpath = format!("{}/src/diacritics.json", repo_dir());
        let dtxt = std::fs::read_to_string(&dpath).unwrap_or_else(|e| harness_error(&format!("read {dpath}: {e}")));
        let dv: serde_json::Value = serde_json::from_str(&dtxt).unwrap_or_else(|e| harness_error(&format!("parse {dpath}: {e}")));
        let diacritics: Vec<char> = dv.as_array().map(|a| a.iter().filter_map(|x| x.get("diacrit").and_then(|c| c.as_str()).and_then(|c| c.chars().next())).collect()).unwrap_or_default();
        Data {
            test_rules: cf.test_rules,
            test_words: cf.test_words,
            example_rules: cf.example_rules,
            example_words: cf.example_words,
            doc_rules: cf.doc_rules,
            doc_into: cf.doc_into,
            doc_from: cf.doc_from,
            cardinals,
            simple_cardinals,
            tie_groups,
            diacritics,
        }
    }
}

pub const FEATS: [&str; 26] = [
    "cons", "son", "syll", "cont", "approx", "lat", "nas", "dr", "strid", "rho", "click", "voice", "sg", "cg",
    "ldental", "round", "ant", "dist", "front", "back", "hi", "lo", "tense", "red", "atr", "rtr",
];
pub const NODES: [&str; 4] = ["lab", "cor", "dor", "phr"];
pub const GROUPS: [&str; 8] = ["C", "O", "S", "L", "N", "G", "V", "P"];
/// segment + diacritic combinations whose prerequisites hold (checked by `ascasim wordstats`)
const COMBOS: [&str; 31] = [
    "pʰ", "tʰ", "kʰ", "bʱ", "dʱ", "ɡʱ", "kʷ", "ɡʷ", "tʲ", "dʲ", "nʲ", "sʲ", "lˠ", "tˤ", "sˤ", "pʼ", "tʼ", "kʼ", "n̩", "m̩", "l̩", "r̩", "ã", "ẽ", "õ", "i̯", "u̯", "t̪", "d̪", "n̥", "l̥",
];

pub fn run_call(rules: Vec<String>, words: Vec<String>) -> Call {
    Call { kind: "run".into(), rules: vec![Group::anon(rules)], words, into: vec![], from: vec![] }
}

/// The renderer sweep (enumerated, not sampled): every cardinal under every single
/// feature/node toggle.  This is the finite set on which an exact-match or distance tie
/// can occur at distance <= 1 from a cardinal.
pub fn renderer_sweep(d: &Data) -> Vec<Call> {
    let mut v = Vec::new();
    // identity rendering of every cardinal (exact-match ties)
    for chunk in d.cardinals.chunks(8) {
        v.push(run_call(vec![], chunk.to_vec()));
    }
    let mut mods: Vec<String> = Vec::new();
    for f in FEATS.iter().chain(NODES.iter()) {
        mods.push(format!("[+{f}]"));
        mods.push(format!("[-{f}]"));
    }
    for m in &mods {
        for c in &d.cardinals {
            v.push(run_call(vec![format!("[] > {m}")], vec![c.clone()]));
        }
    }
    // two features toggled at once: segments that need two diacritics, or that sit between
    // several cardinals (a fixed pseudo-random sample, the same in every run)
    {
        let mut r = Rng::new(0x5eed_2d1a);
        for _ in 0..2500 {
            let m1 = r.pick(&mods).trim_matches(|c| c == '[' || c == ']').to_string();
            let m2 = r.pick(&mods).trim_matches(|c| c == '[' || c == ']').to_string();
            let words: Vec<String> = (0..4).map(|_| r.pick(&d.cardinals).clone()).collect();
            let mut c = run_call(vec![format!("[] > [{m1}, {m2}]")], words);
            if r.chance(1, 3) {
                c.from = vec!["C => +@{acute}".to_string(), "V => +@{grave}".to_string()];
            }
            v.push(c);
        }
    }
    // the same toggles rendered through a `+` romaniser: that path asks for the *nearest*
    // cardinal (Segment::get_nearest_grapheme), a second place where ties are broken
    for m in &mods {
        for chunk in d.cardinals.chunks(4) {
            let mut c = run_call(vec![format!("[] > {m}")], chunk.to_vec());
            c.from = vec!["C => +@{acute}".to_string(), "V => +@{grave}".to_string()];
            v.push(c);
        }
    }
    v
}

pub fn gen_segment(d: &Data, r: &mut Rng) -> String {
    let mut s = match r.below(20) {
        0..=12 => r.pick(&d.simple_cardinals).clone(),
        13..=15 => r.pick(&d.cardinals).clone(),
        _ => r.pick(&COMBOS[..]).to_string(),
    };
    if r.chance(1, 12) {
        s.push('ː');
    }
    s
}

const DENSE: [&str; 20] = ["p", "t", "k", "b", "d", "ɡ", "s", "z", "m", "n", "l", "r", "a", "i", "u", "e", "t͡s", "ɬ", "ɲ", "t͡ɬ"];

/// short words over a small inventory: rules match often, and often run off the end of the word
pub fn dense_word(r: &mut Rng) -> String {
    let n = r.range(1, 4);
    let mut w = String::new();
    for i in 0..n {
        if i > 0 && r.chance(1, 5) {
            w.push('.');
        }
        let seg: &str = *r.pick(&DENSE[..]);
        w.push_str(seg);
    }
    w
}

/// syllables carrying tone numbers (the manual's notation: digits after the syllable)
pub fn tone_word(r: &mut Rng) -> String {
    const SYL: [&str; 10] = ["ma", "a", "pa", "han", "y", "ta", "ka", "i", "san", "u"];
    const TONES: [&str; 10] = ["55", "35", "214", "51", "5", "1", "33", "2141", "3", "12"];
    let n = r.range(1, 3);
    let mut w = String::new();
    for i in 0..n {
        if i > 0 {
            w.push('.');
        }
        let syl: &str = *r.pick(&SYL[..]);
        w.push_str(syl);
        if r.chance(4, 5) {
            let t: &str = *r.pick(&TONES[..]);
            w.push_str(t);
        }
    }
    w
}

pub fn gen_word(d: &Data, r: &mut Rng) -> String {
    if r.chance(1, 4) {
        return dense_word(r);
    }
    if r.chance(1, 8) {
        return tone_word(r);
    }
    match r.below(10) {
        0..=2 => r.pick(&d.test_words).clone(),
        3 => r.pick(&d.test_words).clone(),
        4 => {
            // a word built around a tie group member
            let g = r.pick(&d.tie_groups);
            let mut w = r.pick(g).clone();
            w.push_str(&gen_segment(d, r));
            w
        }
        _ => {
            let n = r.range(1, 5);
            let mut w = String::new();
            for i in 0..n {
                if i > 0 && r.chance(1, 3) {
                    w.push('.');
                    if r.chance(1, 4) {
                        w.push('ˈ');
                    }
                }
                w.push_str(&gen_segment(d, r));
            }
            w
        }
    }
}

pub fn gen_matrix(r: &mut Rng) -> String {
    let n = r.range(1, 3);
    let mut parts = Vec::new();
    for _ in 0..n {
        let sign = if r.chance(1, 2) { "+" } else { "-" };
        let f = if r.chance(1, 6) { *r.pick(&NODES) } else { *r.pick(&FEATS) };
        parts.push(format!("{sign}{f}"));
    }
    if r.chance(1, 10) {
        parts.push(if r.chance(1, 2) { "+long".into() } else { "-long".into() });
    }
    if r.chance(1, 12) {
        parts.push(if r.chance(1, 2) { "+stress".into() } else { "-stress".into() });
    }
    format!("[{}]", parts.join(", "))
}

fn gen_alpha_matrix(r: &mut Rng) -> (String, String) {
    // an input matrix binding alphas and an output matrix using them
    let greek = ["A", "B"];
    let f1 = *r.pick(&FEATS);
    let f2 = *r.pick(&FEATS);
    let a = greek[0];
    let b = greek[1];
    if r.chance(1, 2) {
        (format!("[{a}{f1}]"), format!("[{a}{f2}]"))
    } else {
        (format!("[{a}{f1}, {b}{f2}]"), format!("[{b}{f1}, -{a}{f2}]"))
    }
}

/// a two-item input sharing an alpha between its items (bindings made by the first item are
/// used by the second, and by the output)
fn gen_alpha_sequence(r: &mut Rng) -> String {
    let f = *r.pick(&["voice", "cont", "nas", "son", "hi", "round", "back", "sg"]);
    let base = *r.pick(&["-son", "+cons", "-syll", "+syll", "-cont"]);
    match r.below(4) {
        0 => format!("[{base}, -A{f}] [{base}, A{f}] > [A{f}] []"),
        1 => format!("[{base}, A{f}] [{base}, -A{f}] > [] [A{f}]"),
        2 => format!("[A{f}] [{base}] > [-A{f}] [A{f}]"),
        _ => format!("[{base}, A{f}] [B{f}] > [B{f}] [A{f}]"),
    }
}

/// rules with two or three DISTINCT alphas where one is bound before a set / optional /
/// ellipsis is entered and another is first bound inside it (by an attempt that may fail and
/// must then be rolled back)
fn gen_alpha_backtracking(r: &mut Rng) -> String {
    let fs = ["voice", "cont", "nas", "lat", "hi", "round", "back", "front", "long", "son"];
    let mut pick3 = fs.to_vec();
    r.shuffle(&mut pick3);
    let (f1, f2, f3) = (pick3[0], pick3[1], pick3[2]);
    let g = *r.pick(&["O", "C", "V", "S", "N"]);
    match r.below(6) {
        0 => format!("{g}:[A{f1}] > [B{f2}, A{f1}] / _ {{[B{f2}, +nas], [B{f2}, +lat]}}"),
        1 => format!("V:[A{f1}] > [B{f2}, C{f3}] / _...V:[B{f2}, C{f3}, A{f1}]#"),
        2 => format!("{g}:[A{f1}] > [B{f2}] / _ ([B{f2}, -syll]) V:[A{f1}]"),
        3 => format!("{g}:[A{f1}] > [B{f2}, A{f1}] / {{[B{f2}, +syll], [B{f2}, +cons]}} _"),
        4 => format!("{g}:[A{f1}] > [B{f2}] / _ (C:[B{f2}],1:2) [A{f1}]"),
        _ => format!("[A{f1}, B{f2}] > [C{f3}] / _ {{[C{f3}, A{f1}], [C{f3}, B{f2}]}}"),
    }
}

pub fn gen_elem(d: &Data, r: &mut Rng) -> String {
    match r.below(10) {
        0..=3 => gen_segment(d, r),
        4..=5 => gen_matrix(r),
        6 => r.pick(&GROUPS).to_string(),
        7 => format!("{}:{}", r.pick(&GROUPS), gen_matrix(r)),
        8 => format!("{{{}, {}}}", gen_segment(d, r), gen_segment(d, r)),
        _ => format!("{}:{}", r.pick(&d.simple_cardinals), gen_matrix(r)),
    }
}

pub fn gen_context(d: &Data, r: &mut Rng) -> String {
    match r.below(8) {
        0 => String::new(),
        1 => format!(" / _{}", gen_elem(d, r)),
        2 => format!(" / {}_", gen_elem(d, r)),
        3 => " / #_".into(),
        4 => " / _#".into(),
        5 => format!(" / {}_{}", gen_elem(d, r), gen_elem(d, r)),
        6 => " / _$".into(),
        _ => format!(" / _ | _{}", gen_elem(d, r)),
    }
}

/// A rule assembled from random components of the whole DSL (captures, alphas, structures,
/// sets, optionals, ellipsis, prosody matrices, boundaries, exceptions).  Many of these are
/// rejected by the parser or fail when applied -- for C01 that is as good as success: the
/// outcome, whatever it is, must be the same everywhere.
pub fn gen_combo_rule(d: &Data, r: &mut Rng) -> String {
    let greek = ["A", "B", "C", "α", "β"];
    let feats = ["voice", "cont", "nas", "hi", "back", "round", "long", "stress", "son", "lat"];
    let mut ncap = 0usize;
    let mut alphas_used: Vec<&str> = Vec::new();
    let mut item = |r: &mut Rng, ncap: &mut usize, alphas_used: &mut Vec<&str>, allow_capture: bool| -> String {
        let base = match r.below(9) {
            0 | 1 => r.pick(&GROUPS).to_string(),
            2 => gen_segment(d, r),
            3 => {
                let a = *r.pick(&greek[..]);
                alphas_used.push(a);
                format!("[{}{}]", a, r.pick(&feats[..]))
            }
            4 => {
                let a = *r.pick(&greek[..]);
                alphas_used.push(a);
                format!("{}:[{}{}, {}{}]", r.pick(&GROUPS), a, r.pick(&feats[..]), if r.chance(1, 2) { "+" } else { "-" }, r.pick(&feats[..]))
            }
            5 => "%".to_string(),
            6 => format!("%:[{}stress]", if r.chance(1, 2) { "+" } else { "-" }),
            7 => format!("{{{}, {}}}", r.pick(&GROUPS), gen_segment(d, r)),
            _ => format!("<{} {}>", r.pick(&GROUPS), r.pick(&GROUPS)),
        };
        if allow_capture && r.chance(1, 3) {
            *ncap += 1;
            format!("{base}={}", *ncap)
        } else {
            base
        }
    };
    let nin = r.range(1, 3);
    let mut input: Vec<String> = Vec::new();
    for _ in 0..nin {
        input.push(item(r, &mut ncap, &mut alphas_used, true));
    }
    if r.chance(1, 8) {
        input.insert(r.below(input.len() + 1), "...".to_string());
    }
    // output: captures, alphas, structures, metathesis, deletion
    let mut output: Vec<String> = Vec::new();
    match r.below(8) {
        0 => output.push("*".into()),
        1 => output.push("&".into()),
        _ => {
            let nout = r.range(1, 3);
            for _ in 0..nout {
                let o = match r.below(6) {
                    0 if ncap > 0 => format!("{}", r.range(1, ncap)),
                    1 if ncap > 0 => format!("{}:[{}{}]", r.range(1, ncap), if r.chance(1, 2) { "+" } else { "-" }, r.pick(&feats[..])),
                    2 if ncap > 1 => format!("<{} {}>", r.range(1, ncap), r.range(1, ncap)),
                    3 if !alphas_used.is_empty() => format!("[{}{}]", r.pick(&alphas_used[..]), r.pick(&feats[..])),
                    4 => gen_matrix(r),
                    _ => gen_segment(d, r),
                };
                output.push(o);
            }
        }
    }
    let mut rule = format!("{} > {}", input.join(" "), output.join(" "));
    if r.chance(2, 3) {
        let side = |r: &mut Rng, ncap: &mut usize, alphas_used: &mut Vec<&str>| -> String {
            let n = r.below(3);
            let mut v: Vec<String> = Vec::new();
            for _ in 0..n {
                let it = match r.below(6) {
                    0 if *ncap > 0 => format!("{}", r.range(1, *ncap)),
                    1 => format!("({})", r.pick(&GROUPS)),
                    2 => "#".to_string(),
                    3 => "$".to_string(),
                    _ => item(r, ncap, alphas_used, true),
                };
                v.push(it);
            }
            v.join(" ")
        };
        let before = side(r, &mut ncap, &mut alphas_used);
        let after = side(r, &mut ncap, &mut alphas_used);
        rule.push_str(&format!(" / {before} _ {after}"));
        if r.chance(1, 5) {
            rule.push_str(&format!(" | _ {}", gen_segment(d, r)));
        }
    }
    rule
}

/// One rule line over the documented DSL.  Shapes known to hang or to overflow on the
/// pinned tree (C02's territory) are not produced: no `$ > $`-style unconditioned
/// boundary rewriting, no numeric literals beyond three digits.
/// rules that parse but fail when applied (unbound alpha, unknown variable, deleting the only
/// segment): a small pool, so that the same text recurs at different (group, line) positions
/// in different calls and the *error payloads* are compared across histories
pub const RUNTIME_ERR_RULES: [&str; 14] = [
    "a > [Avoice]", "V > [Aback]", "C > [-Anas]", "C > 1", "V > 2:[+long]", "[] > *", "$ > *", "p > [Avoice, Bcont]",
    // fail after a length change has already been made in the same match
    "V C > [+long] $", "V $ > [+long] [+nasal]", "V:[+long] C > [-long] $",
    // fail only when a word has nothing else left: deletion at a word edge
    "% > * / _#", "% > * / #_", "[] > * / _#",
];

pub fn gen_rule(d: &Data, r: &mut Rng) -> String {
    if r.chance(1, 20) {
        return r.pick(&RUNTIME_ERR_RULES[..]).to_string();
    }
    if r.chance(1, 40) && !d.diacritics.is_empty() {
        let seg = r.pick(&d.simple_cardinals).clone();
        let dia = *r.pick(&d.diacritics);
        return format!("{seg}{dia} > {}", r.pick(&d.simple_cardinals));
    }
    if r.chance(1, 10) {
        return gen_combo_rule(d, r);
    }
    if !d.doc_rules.is_empty() && r.chance(1, 8) {
        return r.pick(&d.doc_rules).clone();
    }
    if r.chance(1, 12) {
        // contexts that read stress or tone to the LEFT of the target, and captures re-used inside
        // output structures (two or three captures at once)
        return r
            .pick(
                &[
                    // multi-rules whose sub-rules feed each other: the order of application matters
                    "a, e > e, i",
                    "a, e, a > e, i, e",
                    // input sets whose alternatives can match the same segment: the first one
                    // written wins, and with it the member of the output set
                    "{n, [+nasal]} > {m, ŋ}",
                    "{C, [+nasal]} > {x, ŋ}",
                    "{a:[+stress], a} > {o, e}",
                    "{a:[+long], a} > {o, e}",
                    "{V, a, [+syll, +hi]} > {e, o, u}",
                    "{[+cons], t, [-voice]} > {d, s, z}",
                    "{[-syll], C} > {k, t} / _#",
                    "a, e, i, o, a > e, i, o, u, e",
                    "p, b > b, v",
                    "i, u > e, i / _#",
                    "t, d > d, ð / V_V",
                    "t > d / [+stress] _",
                    "C > [+voice] / V:[+stress]_",
                    "% > [tone: 35] / %:[tone: 51] _",
                    "%=1 > * / 1 _",
                    "V > [+long] / %:[+stress] _",
                    "s > z / %:[-stress]_",
                    "V > [-long] / [+stress]C_",
                    "* > <1 2> / #_C=1 V=2",
                    "<C=1 V=2> > <2 1>",
                    "* > <2 a> / #_C=1 V=2",
                    "* > <1 2> / _C=1 V=2#",
                    "<C=1 V=2 C=3> > <3 2 1>",
                    "* > <1 a 2> / #_C=1 V C=2",
                ][..],
            )
            .to_string();
    }
    if r.chance(1, 16) {
        // syllable-boundary and tone rules: joining syllables merges their tones
        return r.pick(&["$ > * / V_V", "$ > * / _C#", "% > [tone: 33]", "%:[tone: 214] > [tone:35] / _%:[tone: 214]", "V > [tone: 35], [tone: 51] / _ʔ, _s", "$ > * / V_"][..]).to_string();
    }
    match r.below(16) {
        0..=2 => r.pick(&d.test_rules).clone(),
        3 => r.pick(&d.example_rules).clone(),
        4..=6 => format!("{} > {}{}", gen_elem(d, r), gen_matrix(r), gen_context(d, r)),
        7 => format!("{} > {}{}", gen_elem(d, r), gen_segment(d, r), gen_context(d, r)),
        8 => format!("{} > *{}", gen_elem(d, r), gen_context(d, r)),
        9 => format!("* > {} / {}_{}", gen_segment(d, r), gen_elem(d, r), gen_elem(d, r)),
        10 => {
            let (i, o) = gen_alpha_matrix(r);
            format!("{i} > {o}{}", gen_context(d, r))
        }
        11 => {
            let (i, o) = gen_alpha_matrix(r);
            format!("{} > {o} / _{i}", gen_elem(d, r))
        }
        12 => format!("{}=1 > 1{}", gen_elem(d, r), gen_matrix(r).replace('[', ":[")),
        13 => format!("{}=1 {}=2 > 2 1", r.pick(&GROUPS), r.pick(&GROUPS)),
        14 => {
            if r.chance(1, 3) {
                gen_alpha_sequence(r)
            } else if r.chance(1, 2) {
                gen_alpha_backtracking(r)
            } else {
                format!("{}, {} > {}, {}", gen_segment(d, r), gen_segment(d, r), gen_matrix(r), gen_matrix(r))
            }
        }
        _ => format!("[] > {}", gen_matrix(r)),
    }
}

pub const ALIAS_INTO: [&str; 11] = [
    // `#` is an ordinary character on the romanised side of an alias
    "s# > ʃ",
    "sh, á => ʃ, a:[+str]",
    "ssh, â => ʃ:[+long], a:[+str, +long]",
    "カ, タ, ナ > ka, ta, na",
    "kʷ, gʷ, gʷʱ > kʷ, gʷ, gʷʱ",
    "k, g, gʱ > q, ɢ, ɢʱ",
    "y > j",
    "h₁, h₂, h₃ > h, x, ɣʷ",
    "+@{macron} > [+long]",
    "@{acute} > [+stress]",
    "ng > ŋ",
];
pub const ALIAS_FROM: [&str; 14] = [
    "ʃ => s#",
    "k => #",
    "ʃ, a:[+str], $ > sh, á, *",
    "ʃ:[+long], a:[+str, +long], t:[+long], $ > ssh, â, tt, *",
    "ka, ta, na, $ > カ, タ, ナ, *",
    "a:[+str], $ > +@{acute}, *",
    "V:[+str], $ > +@{acute}, *",
    "a > *",
    "ŋ > ng",
    "j > y",
    "C:[+hi, -bk] => +@{acute}",
    "C => +@{macron}",
    "a:[tone: 55] > á",
    "V:[tone: 51] => +@{grave}",
];

pub fn gen_aliases_with_doc(d: &Data, r: &mut Rng) -> (Vec<String>, Vec<String>) {
    let (mut into, mut from) = gen_aliases(r);
    if !d.doc_into.is_empty() && r.chance(1, 3) {
        into.push(r.pick(&d.doc_into).clone());
    }
    if !d.doc_from.is_empty() && r.chance(1, 3) {
        from.push(r.pick(&d.doc_from).clone());
    }
    (into, from)
}

/// alias lines the library rejects (the command line must then print the library's message
/// for the right section and line)
pub const BAD_ALIAS: [&str; 5] = ["x >", "ʃ > > sh", "q => [+voice", "=> a", "a:[+zzz] > b"];

pub fn gen_aliases(r: &mut Rng) -> (Vec<String>, Vec<String>) {
    let mut into = Vec::new();
    let mut from = Vec::new();
    if r.chance(1, 2) {
        for _ in 0..r.range(1, 3) {
            into.push(r.pick(&ALIAS_INTO).to_string());
        }
    }
    if r.chance(1, 2) {
        for _ in 0..r.range(1, 3) {
            from.push(r.pick(&ALIAS_FROM).to_string());
        }
    }
    if r.chance(1, 12) {
        let bad = r.pick(&BAD_ALIAS[..]).to_string();
        if r.chance(1, 2) {
            let at = r.below(into.len() + 1);
            into.insert(at, bad);
        } else {
            let at = r.below(from.len() + 1);
            from.insert(at, bad);
        }
    }
    (into, from)
}

/// alternative spellings the word lexer documents for the same segment / mark
const RESPELL: [(&str, &str); 8] = [("t͡s", "¢"), ("t͡ɬ", "ƛ"), ("d͡ɮ", "λ"), ("ɬ", "ł"), ("ɲ", "ñ"), ("ɡ", "g"), ("ː", ":"), ("ˈ", "'")];

/// the same word written differently (americanist letters, ASCII length/stress marks), if it
/// contains anything that has a second spelling
pub fn respell(w: &str, r: &mut Rng) -> Option<String> {
    let mut cands: Vec<String> = Vec::new();
    for (a, b) in RESPELL.iter() {
        if w.contains(a) {
            cands.push(w.replace(a, b));
        }
        if w.contains(b) {
            cands.push(w.replace(b, a));
        }
    }
    if cands.is_empty() {
        None
    } else {
        Some(r.pick(&cands).clone())
    }
}

/// A sampled call for C01.
pub fn gen_call(d: &Data, r: &mut Rng) -> Call {
    let kind = match r.below(10) {
        0 => "trace",
        1 => "changes",
        _ => "run",
    };
    let ngroups = r.range(1, 3);
    let mut groups = Vec::new();
    for gi in 0..ngroups {
        let nr = r.range(1, 3);
        let rules: Vec<String> = (0..nr).map(|_| gen_rule(d, r)).collect();
        groups.push(Group { name: format!("g{gi}"), rule: rules, description: String::new() });
    }
    let nw = if kind == "run" { r.range(1, 6) } else { 1 };
    let mut words: Vec<String> = (0..nw).map(|_| gen_word(d, r)).collect();
    if kind != "run" && r.chance(1, 3) {
        // a phrase of several words
        words[0] = format!("{} {}", words[0], gen_word(d, r));
    }
    if r.chance(1, 10) && !d.diacritics.is_empty() {
        // a diacritic on a segment that may not carry it (several prerequisites can fail at
        // once): the library must report the same error everywhere
        let k = r.below(words.len());
        let seg = r.pick(&d.simple_cardinals).clone();
        let dia = *r.pick(&d.diacritics);
        words[k] = format!("{}{seg}{dia}a", if r.chance(1, 2) { "p" } else { "" });
    }
    if kind == "run" {
        // lines may be phrases, may contain an empty word (double or leading space), may be blank
        if r.chance(1, 5) {
            let k = r.below(words.len());
            let w2 = gen_word(d, r);
            words[k] = match r.below(4) {
                0 => format!("{}  {}", words[k], w2),
                1 => format!(" {}", words[k]),
                _ => format!("{} {}", words[k], w2),
            };
        }
        if r.chance(1, 6) {
            let at = r.below(words.len() + 1);
            words.insert(at, String::new());
        }
        if r.chance(1, 6) {
            // the same line again with a blank in front (an empty first word): a different line
            let k = r.below(words.len());
            let v = format!(" {}", words[k].trim_start());
            if v != words[k] {
                let at = r.below(words.len() + 1);
                words.insert(at, v);
            }
        }
        // word lists contain repeats, and the same word in another spelling
        if r.chance(1, 6) {
            let w = r.pick(&words).clone();
            words.push(w);
        }
        if r.chance(1, 3) {
            // the same segments with other prosody: stress added or removed, a tone changed
            let k = r.below(words.len());
            let w = words[k].clone();
            let v = if w.starts_with('ˈ') {
                w.trim_start_matches('ˈ').to_string()
            } else if w.chars().any(|c| c.is_ascii_digit()) {
                w.chars().map(|c| if c.is_ascii_digit() { char::from(b'1' + ((c as u8 - b'0') % 5)) } else { c }).collect()
            } else {
                format!("ˈ{w}")
            };
            if v != w && !v.is_empty() {
                let at = r.below(words.len() + 1);
                words.insert(at, v);
            }
        }
        if r.chance(1, 3) {
            let k = r.below(words.len());
            if let Some(w2) = respell(&words[k], r) {
                let at = r.below(words.len() + 1);
                words.insert(at, w2);
            }
        }
    }
    let (into, from) = if r.chance(1, 4) { gen_aliases_with_doc(d, r) } else { (vec![], vec![]) };
    let from = if kind == "run" { from } else { vec![] };
    Call { kind: kind.into(), rules: groups, words, into, from }
}

/// A sibling of a call: the same rules with ONE sign flipped inside a matrix (same text
/// positions, other meaning), possibly through another entry point.  Anything keyed by where a
/// rule item stands rather than by what it says shows up when both run in one process.
pub fn sibling_call(c: &Call, r: &mut Rng) -> Option<Call> {
    let mut sib = c.clone();
    // candidate positions: '+' or '-' directly after '[' or ", " inside some rule
    let mut cands: Vec<(usize, usize, usize)> = Vec::new();
    for (gi, g) in sib.rules.iter().enumerate() {
        for (ri, rule) in g.rule.iter().enumerate() {
            let chars: Vec<char> = rule.chars().collect();
            for i in 1..chars.len() {
                if (chars[i] == '+' || chars[i] == '-') && (chars[i - 1] == '[' || chars[i - 1] == ' ') && rule[..].contains('[') {
                    cands.push((gi, ri, i));
                }
            }
        }
    }
    if cands.is_empty() {
        return None;
    }
    let (gi, ri, ci) = *r.pick(&cands);
    let mut chars: Vec<char> = sib.rules[gi].rule[ri].chars().collect();
    chars[ci] = if chars[ci] == '+' { '-' } else { '+' };
    sib.rules[gi].rule[ri] = chars.into_iter().collect();
    match r.below(3) {
        0 => {}
        1 => {
            sib.kind = "trace".into();
            sib.words.truncate(1);
            sib.from.clear();
        }
        _ => {
            sib.kind = "changes".into();
            sib.words.truncate(1);
            sib.from.clear();
        }
    }
    if sib.words.is_empty() {
        return None;
    }
    Some(sib)
}

/// A family of calls whose rules are identical up to one modifier of a `segment:[…]` item
/// (`a:[+long] > e`, `a:[-long] > e`, `a:[Along] > e:[Along]`), through different entry points,
/// on a word that has the segment in both states.
pub fn modifier_family(r: &mut Rng) -> Vec<Call> {
    let seg: &str = *r.pick(&["a", "i", "u", "e", "o", "t", "k", "s", "n"][..]);
    let to: &str = *r.pick(&["e", "o", "ə", "d", "x", "z", "m"][..]);
    let f: &str = *r.pick(&["long", "stress", "long", "stress", "nasal"][..]);
    let other: &str = *r.pick(&["p", "t", "m", "a", "i"][..]);
    let word = match f {
        "long" => format!("{seg}ː.{other}{seg}.{seg}{other}ː"),
        "stress" => format!("ˈ{seg}{other}.{seg}.{other}{seg}"),
        _ => format!("{seg}.{other}{seg}{other}"),
    };
    let mk = |kind: &str, rule: String| Call { kind: kind.into(), rules: vec![Group { name: "g0".into(), rule: vec![rule], description: String::new() }], words: vec![word.clone()], into: vec![], from: vec![] };
    let mut v = vec![
        mk("run", format!("{seg}:[+{f}] > {to}")),
        mk("run", format!("{seg}:[-{f}] > {to}")),
        mk("trace", format!("{seg}:[-{f}] > {to}")),
        mk("trace", format!("{seg}:[+{f}] > {to}")),
        mk("changes", format!("{seg}:[A{f}] > {to}:[A{f}]")),
        mk("run", format!("{seg}:[A{f}] > {to}:[A{f}]")),
    ];
    r.shuffle(&mut v);
    v
}

/// toned words romanised by an alias that reads a tone: some words carry the tone the alias
/// consumes, others a tone it leaves alone
pub fn tone_alias_call(r: &mut Rng) -> Call {
    let (alias, t1) = *r.pick(&[("a:[tone: 55] > á", "55"), ("V:[tone: 51] => +@{grave}", "51"), ("a:[tone: 214] > ǎ", "214")][..]);
    let other = ["51", "35", "55", "214", "5"];
    let n = r.range(2, 4);
    let mut words: Vec<String> = Vec::new();
    for _ in 0..n {
        let c: &str = *r.pick(&["t", "k", "m", "s", "p"][..]);
        let tone: &str = if r.chance(1, 2) { t1 } else { *r.pick(&other[..]) };
        let mut w = format!("{c}a{tone}");
        if r.chance(1, 3) {
            let c2: &str = *r.pick(&["n", "l", "t"][..]);
            let tone2: &str = *r.pick(&other[..]);
            w.push_str(&format!(".{c2}a{tone2}"));
        }
        words.push(w);
    }
    Call { kind: "run".into(), rules: vec![], words, into: vec![], from: vec![alias.to_string()] }
}

/// long word lists (longer than any batch or chunk size a library is likely to use): half of
/// them plain, half with two or three rules that each fail at run time on a different segment,
/// so that WHICH error a call reports depends on which failing word the library meets first
pub fn long_list_call(d: &Data, r: &mut Rng) -> Call {
    let n = *r.pick(&[65usize, 66, 80, 127, 128, 129, 200, 257, 320][..]);
    if r.chance(1, 2) {
        let nr = r.range(1, 2);
        let rules: Vec<String> = (0..nr).map(|_| gen_rule(d, r)).collect();
        let mut words: Vec<String> = (0..n).map(|_| gen_word(d, r)).collect();
        for _ in 0..r.range(0, 4) {
            let k = r.below(words.len());
            words[k] = String::new();
        }
        for _ in 0..r.range(0, 3) {
            let (a, b) = (r.below(words.len()), r.below(words.len()));
            words[a] = words[b].clone();
        }
        return Call { kind: "run".into(), rules: vec![Group::anon(rules)], words, into: vec![], from: vec![] };
    }
    // (rule, segment that makes it fail)
    let traps: [(&str, &str); 5] = [("x > 1", "x"), ("y > 2", "y"), ("s > [-manner]", "s"), ("ɸ > [Avoice]", "ɸ"), ("ʒ > 3:[+long]", "ʒ")];
    let mut idx: Vec<usize> = (0..traps.len()).collect();
    r.shuffle(&mut idx);
    let chosen: Vec<(&str, &str)> = idx.iter().take(r.range(2, 3)).map(|&i| traps[i]).collect();
    let plain = ["pa", "ti", "ku", "me", "no", "li", "ka.ti", "mu.no", "po.ke.mi", "tat", "kin"];
    let mut words: Vec<String> = (0..n).map(|_| (*r.pick(&plain[..])).to_string()).collect();
    // every chosen trap is sprung by at least one word; where they sit is random, sometimes clustered
    // at the end of the list
    for (_, seg) in &chosen {
        for _ in 0..r.range(1, 3) {
            let k = if r.chance(1, 3) { n - 1 - r.below(n / 4) } else { r.below(n) };
            words[k] = format!("{seg}a");
        }
    }
    if r.chance(1, 3) {
        // one trap fills the back half
        let (_, seg) = chosen[0];
        for w in words.iter_mut().skip(n / 2) {
            *w = format!("{seg}a");
        }
        let (_, seg2) = chosen[1];
        let k = r.below(n / 2);
        words[k] = format!("{seg2}a");
    }
    Call { kind: "run".into(), rules: vec![Group::anon(chosen.iter().map(|(ru, _)| ru.to_string()).collect())], words, into: vec![], from: vec![] }
}

/// environment sets `:{ .. }:` whose members look to different sides and bind a shared alpha:
/// which member is tried first decides the binding, and words are chosen so that it matters
pub fn env_set_call(r: &mut Rng) -> Call {
    let rule: &str = *r.pick(
        &[
            "a > [Anasal] / :{ _C:[Anasal], C:[Anasal]_ }:",
            "a > e | :{ _C:[Anasal]p, C:[Anasal]_ }:",
            "V > [Anasal] / :{ C:[Anasal]_, _C:[Anasal] }:",
            "C > [Avoice] / :{ _C:[Avoice], C:[Avoice]_ }:",
            "a > [Along] / :{ _$C:[Avoice], C:[Avoice]_ }:",
            "a > o / :{ _C:[Anasal], C:[-Anasal]_ }:",
        ][..],
    );
    let pool = ["tan", "nat", "tat", "nan", "tank", "tamp", "man", "pam", "an.ta", "na.ta", "sad.ta", "ab.sa", "das", "zat"];
    let n = r.range(2, 5);
    let words: Vec<String> = (0..n).map(|_| (*r.pick(&pool[..])).to_string()).collect();
    Call { kind: "run".into(), rules: vec![Group::anon(vec![rule.to_string()])], words, into: vec![], from: vec![] }
}

/// calls that differ only in their deromanisers, over words that are spelled with them: alias
/// inputs of different lengths (`y`, `ng`, `ssh`, `ツァ`), prefixes of each other (`n`/`ng`, `sh`/`ssh`)
/// and overlapping plain graphemes (`ts`)
pub fn deroman_family(r: &mut Rng) -> Vec<Call> {
    let lists: [&[&str]; 9] = [
        &["y > j"],
        &["ng > ŋ", "n > ŋ"],
        &["n > ŋ", "ng > ŋ"],
        &["sh, á => ʃ, a:[+str]"],
        &["ssh, â => ʃ:[+long], a:[+str, +long]", "sh > ʃ"],
        &["ts > t͡s"],
        &["カ, タ, ナ > ka, ta, na"],
        &["ツァ > t͡sa", "ツ > t͡su"],
        &["x > ʃ"],
    ];
    let pool = ["sháta", "ssha", "asha", "anga", "nata", "tsa", "atsa", "yata", "カタ", "ツァ", "ツ", "xa", "pa.ta", "an.ŋa"];
    let nw = r.range(2, 4);
    let words: Vec<String> = (0..nw).map(|_| (*r.pick(&pool[..])).to_string()).collect();
    let rules = if r.chance(1, 2) { vec![] } else { vec![Group::anon(vec![(*r.pick(&["a > e", "ŋ > m", "ʃ > s", "V > [+nasal] / _N"][..])).to_string()])] };
    let mut idx: Vec<usize> = (0..lists.len()).collect();
    r.shuffle(&mut idx);
    let n = r.range(2, 3);
    idx.iter()
        .take(n)
        .map(|&i| {
            let mut into: Vec<String> = lists[i].iter().map(|s| s.to_string()).collect();
            if r.chance(1, 4) {
                into.extend(lists[(i + 1) % lists.len()].iter().map(|s| s.to_string()));
            }
            Call { kind: "run".into(), rules: rules.clone(), words: words.clone(), into, from: vec![] }
        })
        .collect()
}

/// romanisers that replace the syllable boundary by visible text, over words some of which
/// begin with a stressed syllable (the leading stress mark is then dropped, not replaced)
pub fn boundary_alias_call(r: &mut Rng) -> Call {
    let b: &str = *r.pick(&["$ > ·", "$ > \\-", "$ > '"][..]);
    let mut from = vec![b.to_string()];
    if r.chance(1, 2) {
        from.push((*r.pick(&["a:[+str] > á", "V:[+str] => +@{acute}", "ʃ > sh"][..])).to_string());
    }
    let pool = ["ˈka.ta", "mi.no", "ˈlo", "ˈmi.no", "ta.ˈka", "ˈsa.na", "pa", "ˌsa.na.ˈta", "ʃa.ˈʃa"];
    let n = r.range(2, 5);
    let words: Vec<String> = (0..n).map(|_| (*r.pick(&pool[..])).to_string()).collect();
    let rules = if r.chance(1, 2) { vec![] } else { vec![Group::anon(vec!["a > e / _#".to_string()])] };
    Call { kind: "run".into(), rules, words, into: vec![], from }
}

/// words that mix the ASCII spellings of stress and length (`'`, `,`, `:`, `;`) with americanist
/// letters (`ñ`, `ł`, `¢`, `ƛ`, `λ`): the reader normalises both kinds, the renderer remembers one
pub fn alt_spelling_call(r: &mut Rng) -> Call {
    let pool = ["'ña", "ła:", "a,¢a", "ƛa;ta", "'λa", "ña", "'ta", "ta:", "ɲa", "ła", "'ga:"];
    let n = r.range(2, 5);
    let words: Vec<String> = (0..n).map(|_| (*r.pick(&pool[..])).to_string()).collect();
    let rules = if r.chance(1, 3) { vec![] } else { vec![Group::anon(vec![(*r.pick(&["a > o", "V > [+long] / _#", "ɲ > n"][..])).to_string()])] };
    Call { kind: "run".into(), rules, words, into: vec![], from: vec![] }
}

/// several `+` romanisers that match one and the same segment (the first one listed wins)
pub fn plus_stack_call(r: &mut Rng) -> Call {
    let pool = ["V:[+str] => +@{acute}", "V:[+long] => +@{macron}", "V:[+nasal] => +@{ogonek}", "C => +@{macron}", "C:[+hi, -bk] => +@{acute}", "V => +@{grave}"];
    let mut idx: Vec<usize> = (0..pool.len()).collect();
    r.shuffle(&mut idx);
    let mut from: Vec<String> = idx.iter().take(r.range(2, 3)).map(|&i| pool[i].to_string()).collect();
    if r.chance(1, 3) {
        from.push("$ => *".to_string());
    }
    let wpool = ["'ka:.ta", "'tã", "ˈaː", "ca.ɲa", "'iː.ti", "ˈãː", "ta", "ˈca"];
    let n = r.range(1, 4);
    let words: Vec<String> = (0..n).map(|_| (*r.pick(&wpool[..])).to_string()).collect();
    Call { kind: "run".into(), rules: vec![], words, into: vec![], from }
}

/// a word the reader refuses (at different stages of reading it), alone in a call: whatever the
/// refusal leaves behind meets the next call on that thread
pub fn refused_word_call(r: &mut Rng) -> Call {
    let w: &str = *r.pick(&["ma12345", "pa123456.ta5", "ma55555", "ta5.pa99999", "k%ta", "ma5x", "t͡", "'", "pa..ta", "a᷄᷄᷄᷄᷄x)"][..]);
    let rules = if r.chance(1, 2) { vec![] } else { vec![Group::anon(vec!["a > e".to_string()])] };
    Call { kind: "run".into(), rules, words: vec![w.to_string()], into: vec![], from: vec![] }
}

/// corpus cross product sample: a test rule applied to a handful of test words
pub fn corpus_call(d: &Data, r: &mut Rng) -> Call {
    let rule = r.pick(&d.test_rules).clone();
    let nw = r.range(2, 8);
    let words = (0..nw).map(|_| r.pick(&d.test_words).clone()).collect();
    run_call(vec![rule], words)
}
