//! ascasim -- deterministic simulation driver for asca-rust (see /verif/DESIGN.md).
//!
//! ascasim c01|c19|c20 quick|thorough      run an engine (VERIF_SEED decides everything)
//! ascasim replay <file>                   re-execute a replay file; exit 1 if it reproduces
//! ascasim selftest                        seam liveness + determinism proof (exit 2 on failure)
//! ascasim instance <job>                  (internal) library instance
//! ascasim oracle                          (internal) reference-model server
//! ascasim probe-hash                      (internal) prints a HashMap iteration order

mod c01;
mod c19;
mod c19gen;
mod c20;
mod c20gen;
mod cli;
mod oracle;
mod gen;
mod instance;
mod prng;
mod proc;
mod report;
mod selftest;

fn seed_from_env() -> u64 {
    match std::env::var("VERIF_SEED") {
        Ok(s) if !s.trim().is_empty() => s.trim().parse::<u64>().unwrap_or_else(|_| {
            // non-numeric seeds are hashed, so that any string is a usable seed
            prng::digest_str(s.trim())
        }),
        _ => 1,
    }
}

fn main() {
    let args: Vec<String> = std::env::args().collect();
    let cmd = args.get(1).map(|s| s.as_str()).unwrap_or("");
    let tier = args.get(2).map(|s| s.as_str()).unwrap_or("quick");
    let code = match cmd {
        "instance" => instance::main_instance(args.get(2).expect("job path")),
        "probe-hash" => {
            let mut m = std::collections::HashMap::new();
            for i in 0..64u32 {
                m.insert(i, ());
            }
            let v: Vec<String> = m.keys().map(|k| k.to_string()).collect();
            println!("{}", v.join(","));
            if let Some(p) = args.get(2) {
                let _ = std::fs::read_to_string(p);
            }
            0
        }
        "c01" => c01::main_c01(tier, seed_from_env()),
        "c19" => c19::main_c19(tier, seed_from_env()),
        "c20" => c20::main_c20(tier, seed_from_env()),
        "oracle" => oracle::main_oracle(),
        "classify" => {
            // classify candidate lines (from the manual) as rule / deromaniser / romaniser by asking the library
            let cands: Vec<String> = serde_json::from_str(&std::fs::read_to_string(&args[2]).unwrap()).unwrap();
            let mut o = oracle::Oracle::new(5);
            let words: Vec<String> = ["ma214.a51", "pa5.a1", "ka.ta", "'a.ma", "san.da", "ha:n", "a"].iter().map(|s| s.to_string()).collect();
            let mut rules = Vec::new();
            let mut into = Vec::new();
            let mut from = Vec::new();
            for c in cands {
                let is_ok = |a: oracle::Ans| matches!(a, oracle::Ans::Ok(_));
                let synt = |a: &oracle::Ans| matches!(a, oracle::Ans::Err(e) if e.contains("Syntax Error"));
                let a = o.run(&oracle::Req { rules: vec![instance::Group::anon(vec![c.clone()])], words: words.clone(), into: vec![], from: vec![] });
                if !synt(&a) && !matches!(a, oracle::Ans::Panic | oracle::Ans::Hang) {
                    rules.push(c.clone());
                }
                if is_ok(o.run(&oracle::Req { rules: vec![], words: words.clone(), into: vec![c.clone()], from: vec![] })) {
                    into.push(c.clone());
                }
                if is_ok(o.run(&oracle::Req { rules: vec![], words: words.clone(), into: vec![], from: vec![c.clone()] })) {
                    from.push(c.clone());
                }
            }
            println!("{}", serde_json::to_string(&serde_json::json!({"doc_rules": rules, "doc_into": into, "doc_from": from})).unwrap());
            0
        }
        "slowrules" => {
            let d = gen::Data::load();
            let mut o = oracle::Oracle::new(5);
            let mut r = prng::Rng::new(3);
            let words: Vec<String> = (0..40).map(|_| gen::gen_word(&d, &mut r)).collect();
            let mut all: Vec<String> = d.doc_rules.clone();
            all.extend(d.test_rules.iter().cloned());
            all.extend(d.example_rules.iter().cloned());
            for rule in all {
                let t = std::time::Instant::now();
                let a = o.run(&oracle::Req { rules: vec![instance::Group::anon(vec![rule.clone()])], words: words.clone(), into: vec![], from: vec![] });
                let ms = t.elapsed().as_millis();
                if ms > 50 || matches!(a, oracle::Ans::Hang | oracle::Ans::Panic) {
                    println!("{ms:6} ms {:?} {rule}", std::mem::discriminant(&a));
                }
            }
            0
        }
        "compose-min" => {
            // shrink a counterexample to "staged == all at once": args: file with {"r1":[..],"r2":[..],"word":".."}
            let v: serde_json::Value = serde_json::from_str(&std::fs::read_to_string(&args[2]).unwrap()).unwrap();
            let mut r1: Vec<String> = serde_json::from_value(v["r1"].clone()).unwrap();
            let mut r2: Vec<String> = serde_json::from_value(v["r2"].clone()).unwrap();
            let word: String = v["word"].as_str().unwrap().to_string();
            let mut o = oracle::Oracle::new(5);
            let mut differs = |r1: &Vec<String>, r2: &Vec<String>, o: &mut oracle::Oracle| -> Option<(String, String, String)> {
                let g = |r: &Vec<String>| vec![instance::Group::anon(r.clone())];
                let mut all = r1.clone();
                all.extend(r2.iter().cloned());
                let once = match o.run(&oracle::Req { rules: g(&all), words: vec![word.clone()], into: vec![], from: vec![] }) { oracle::Ans::Ok(x) => x[0].clone(), _ => return None };
                let mid = match o.run(&oracle::Req { rules: g(r1), words: vec![word.clone()], into: vec![], from: vec![] }) { oracle::Ans::Ok(x) => x[0].clone(), _ => return None };
                let fp = match o.run(&oracle::Req { rules: vec![], words: vec![mid.clone()], into: vec![], from: vec![] }) { oracle::Ans::Ok(x) => x[0].clone(), _ => return None };
                if fp != mid { return None }
                let staged = match o.run(&oracle::Req { rules: g(r2), words: vec![mid.clone()], into: vec![], from: vec![] }) { oracle::Ans::Ok(x) => x[0].clone(), _ => return None };
                if staged != once { Some((mid, staged, once)) } else { None }
            };
            if differs(&r1, &r2, &mut o).is_none() { println!("no difference"); std::process::exit(1); }
            loop {
                let mut progress = false;
                for which in 0..2 {
                    let mut i = 0;
                    loop {
                        let len = if which == 0 { r1.len() } else { r2.len() };
                        if i >= len { break }
                        let (mut c1, mut c2) = (r1.clone(), r2.clone());
                        if which == 0 { c1.remove(i); } else { c2.remove(i); }
                        if differs(&c1, &c2, &mut o).is_some() { r1 = c1; r2 = c2; progress = true; } else { i += 1; }
                    }
                }
                if !progress { break }
            }
            let (mid, staged, once) = differs(&r1, &r2, &mut o).unwrap();
            println!("word {word:?}\nr1 {r1:?}\nr2 {r2:?}\nintermediate {mid:?} (re-reads as itself)\nstaged {staged:?}\nall at once {once:?}");
            0
        }
        "combostats" => {
            let d = gen::Data::load();
            let mut o = oracle::Oracle::new(5);
            let mut tally: std::collections::BTreeMap<String, u32> = Default::default();
            for i in 0..3000u64 {
                let mut r = prng::Rng::derive(7, 1, i);
                let rule = gen::gen_combo_rule(&d, &mut r);
                let words: Vec<String> = (0..4).map(|_| gen::gen_word(&d, &mut r)).collect();
                let t = std::time::Instant::now();
                let a = o.run(&oracle::Req { rules: vec![instance::Group::anon(vec![rule.clone()])], words, into: vec![], from: vec![] });
                let k = match &a {
                    oracle::Ans::Ok(_) => "ok".to_string(),
                    oracle::Ans::Err(e) => format!("err {}", e.lines().next().unwrap_or("").chars().take(28).collect::<String>()),
                    x => { println!("{x:?} {rule}"); format!("{x:?}") }
                };
                if t.elapsed().as_millis() > 300 { println!("slow {} ms: {rule}", t.elapsed().as_millis()); }
                *tally.entry(k).or_default() += 1;
            }
            let mut v: Vec<_> = tally.into_iter().collect();
            v.sort_by_key(|x| std::cmp::Reverse(x.1));
            for (k, n) in v.iter().take(12) { println!("{n:5} {k}"); }
            0
        }
        "poolstats" => {
            // which rules of a candidate pool hang or crash the library on ordinary words
            let d = gen::Data::load();
            let mut o = oracle::Oracle::new(5);
            let cands: Vec<String> = serde_json::from_str(&std::fs::read_to_string(&args[2]).unwrap()).unwrap();
            for rule in cands {
                let mut bad = 0;
                let mut r = prng::Rng::new(11);
                for _ in 0..150 {
                    let w = gen::gen_word(&d, &mut r);
                    let a = o.run(&oracle::Req { rules: vec![instance::Group::anon(vec![rule.clone()])], words: vec![w.clone()], into: vec![], from: vec![] });
                    if matches!(a, oracle::Ans::Hang | oracle::Ans::Panic) {
                        bad += 1;
                        if bad == 1 { println!("  {a:?} on {w:?}"); }
                        if matches!(a, oracle::Ans::Hang) && bad >= 2 { break; }
                    }
                }
                println!("{bad:3} bad  {rule}");
            }
            0
        }
        "wordstats" => {
            let d = gen::Data::load();
            let mut o = oracle::Oracle::new(5);
            let mut bad = 0;
            for i in 0..3000u64 {
                let mut r = prng::Rng::derive(1, 1, i);
                let w = gen::gen_word(&d, &mut r);
                if let oracle::Ans::Err(e) = o.run(&oracle::Req { rules: vec![], words: vec![w.clone()], into: vec![], from: vec![] }) {
                    bad += 1;
                    if bad < 40 {
                        println!("{w:?}: {}", e.lines().next().unwrap_or(""));
                    }
                }
            }
            println!("bad {bad} / 3000");
            0
        }
        "errstats" => {
            let d = gen::Data::load();
            let mut o = oracle::Oracle::new(5);
            let mut tally: std::collections::BTreeMap<String, u32> = Default::default();
            for i in 0..1500u64 {
                let mut r = prng::Rng::derive(1, 1, i);
                let m = c19gen::gen_model(&d, &mut r);
                let a = o.run(&oracle::Req { rules: m.rules.clone(), words: m.words.clone(), into: m.into.clone(), from: m.from.clone() });
                let k = match a {
                    oracle::Ans::Ok(_) => "ok".to_string(),
                    oracle::Ans::Err(e) => format!("err: {}", e.lines().next().unwrap_or("").chars().take(60).collect::<String>()),
                    x => {
                        println!("{x:?}: rules {:?} words {:?} into {:?} from {:?}", m.rules.iter().map(|g| g.rule.clone()).collect::<Vec<_>>(), m.words, m.into, m.from);
                        format!("{x:?}")
                    }
                };
                *tally.entry(k).or_default() += 1;
            }
            let mut v: Vec<_> = tally.into_iter().collect();
            v.sort_by_key(|x| std::cmp::Reverse(x.1));
            for (k, n) in v.iter().take(25) {
                println!("{n:5} {k}");
            }
            0
        }
        "selftest" => selftest::main_selftest(tier),
        "replay" => {
            let path = args.get(2).unwrap_or_else(|| gen::harness_error("replay: missing file"));
            let txt = std::fs::read_to_string(path).unwrap_or_else(|e| gen::harness_error(&format!("replay: {e}")));
            let doc: serde_json::Value = serde_json::from_str(&txt).unwrap_or_else(|e| gen::harness_error(&format!("replay: {e}")));
            match doc.get("engine").and_then(|v| v.as_str()) {
                Some("c01") => c01::replay(&doc, path),
                Some("c19") => c19::replay(&doc, path),
                Some("c20") => c20::replay(&doc, path),
                other => gen::harness_error(&format!("replay: unknown engine {other:?}")),
            }
        }
        _ => {
            eprintln!("usage: ascasim c01|c19|c20 quick|thorough | replay <file> | selftest");
            2
        }
    };
    std::process::exit(code);
}
