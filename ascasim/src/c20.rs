//! Engine c20 -- "a seq project is the composition of its stages, as configured"
//! (DESIGN.md 4.3).  The reference model below is written from doc/doc-cli.md and works
//! on the *generated structure* of the project; it shares no code with src/cli.

use crate::c19::{Fail, Stats};
use crate::c20gen::{self, Cmd, Inv, Project, Scn, Tag, PROJ};
use crate::cli::{self, FaultClass, InvOut, Model, Snap};
use crate::gen::{harness_error, Data};
use crate::instance::Group;
use crate::oracle::{Ans, Oracle, Req};
use crate::prng::{self, Fnv, Rng};
use crate::proc::{self, par_map, Scratch};
use crate::report::{self, Evidence, Known, Violation};
use serde_json::{json, Value};
use std::collections::{BTreeMap, BTreeSet};
use std::time::Instant;

// ------------------------------------------------------------------ the reference model

thread_local! {
    static COMPOSITION_IS_VERDICT: std::cell::Cell<bool> = const { std::cell::Cell::new(false) };
    static COMPOSITION_MISMATCHES: std::cell::Cell<u64> = const { std::cell::Cell::new(0) };
}

static DIACRITICS: std::sync::OnceLock<Vec<char>> = std::sync::OnceLock::new();
pub fn set_diacritics(d: &[char]) {
    let _ = DIACRITICS.set(d.to_vec());
}
fn diacritics() -> &'static [char] {
    DIACRITICS.get().map(|v| v.as_slice()).unwrap_or(&[])
}

#[derive(Clone, Debug)]
pub enum TagRes {
    /// stage 0 = input words, stage k = words after entry k
    Stages(Vec<Vec<String>>),
    /// a stage returned a library error: nothing is printed as a result or written for this tag or its descendants
    LibErr,
    Unjudgeable,
}

pub struct SeqModel {
    pub p: Project,
    pub diacritics: Vec<char>,
    memo: BTreeMap<String, TagRes>,
}

fn find_tag<'a>(p: &'a Project, name: &str) -> Option<&'a Tag> {
    p.tags.iter().find(|t| t.name == name)
}

/// `!` removes exactly the named groups; `~` keeps exactly the named ones in the order
/// named; names compared case-insensitively.
pub fn apply_filter(groups: &[Group], filter: &Option<(char, Vec<String>)>) -> Vec<Group> {
    match filter {
        None => groups.to_vec(),
        Some(('!', names)) => {
            let low: Vec<String> = names.iter().map(|n| n.to_lowercase()).collect();
            groups.iter().filter(|g| !low.contains(&g.name.to_lowercase())).cloned().collect()
        }
        Some((_, names)) => names.iter().filter_map(|n| groups.iter().find(|g| g.name.to_lowercase() == n.to_lowercase()).cloned()).collect(),
    }
}

impl SeqModel {
    pub fn new(p: &Project, diacritics: &[char]) -> Self {
        SeqModel { p: p.clone(), diacritics: diacritics.to_vec(), memo: BTreeMap::new() }
    }
    /// the project changed on disk (an edit step): forget every computed stage
    pub fn invalidate(&mut self) {
        self.memo.clear();
    }
    fn alias_of(&self, t: &Tag) -> (Vec<String>, Vec<String>) {
        match &t.alias {
            Some(a) => self.p.alias_files.get(a).cloned().unwrap_or_default(),
            None => (vec![], vec![]),
        }
    }
    pub fn input_words(&mut self, t: &Tag, oracle: &mut Oracle, probes: &mut BTreeMap<String, u64>) -> Result<Vec<String>, TagRes> {
        let mut words: Vec<String> = match &t.parent {
            Some(pn) => match self.stages(pn, oracle, probes) {
                TagRes::Stages(s) => s.last().unwrap().clone(),
                TagRes::LibErr => return Err(TagRes::LibErr),
                TagRes::Unjudgeable => return Err(TagRes::Unjudgeable),
            },
            None => vec![],
        };
        for w in &t.words {
            let Some(file) = self.p.word_files.get(w) else { return Err(TagRes::Unjudgeable) };
            if !words.is_empty() {
                words.push(String::new());
            }
            words.extend(file.iter().cloned());
        }
        Ok(words)
    }
    pub fn entry_groups(&self, t: &Tag) -> Option<Vec<Vec<Group>>> {
        t.entries.iter().map(|e| self.p.rule_files.get(&e.file).map(|g| apply_filter(g, &e.filter))).collect()
    }
    pub fn stages(&mut self, name: &str, oracle: &mut Oracle, probes: &mut BTreeMap<String, u64>) -> TagRes {
        if let Some(r) = self.memo.get(name) {
            return r.clone();
        }
        let Some(t) = find_tag(&self.p, name).cloned() else { return TagRes::Unjudgeable };
        let res = (|| {
            let words = match self.input_words(&t, oracle, probes) {
                Ok(w) => w,
                Err(e) => return e,
            };
            if words.is_empty() {
                return TagRes::Unjudgeable;
            }
            let (into, from) = self.alias_of(&t);
            let Some(groups) = self.entry_groups(&t) else { return TagRes::Unjudgeable };
            let mut stages = vec![words];
            for g in groups {
                match oracle.run(&Req { rules: g, words: stages.last().unwrap().clone(), into: into.clone(), from: from.clone() }) {
                    Ans::Ok(res) => {
                        if res.iter().any(|w| w.chars().count() > 160) {
                            // runaway growth along the pipeline: not judged (and not worth the time)
                            return TagRes::Unjudgeable;
                        }
                        stages.push(res)
                    }
                    Ans::Err(_) => {
                        *probes.entry("tag_with_library_error".into()).or_default() += 1;
                        return TagRes::LibErr;
                    }
                    _ => return TagRes::Unjudgeable,
                }
            }
            TagRes::Stages(stages)
        })();
        self.memo.insert(name.to_string(), res.clone());
        res
    }
    /// root of the pipeline a tag belongs to, and the chain root -> tag
    pub fn chain(&self, name: &str) -> Option<Vec<Tag>> {
        let mut v = Vec::new();
        let mut cur = find_tag(&self.p, name)?;
        let mut guard = 0;
        loop {
            v.push(cur.clone());
            guard += 1;
            if guard > 16 {
                return None;
            }
            match &cur.parent {
                Some(pn) => cur = find_tag(&self.p, pn)?,
                None => break,
            }
        }
        v.reverse();
        Some(v)
    }
}

// ------------------------------------------------------------------ expectations

#[derive(Clone, Debug)]
pub enum Expect {
    /// config must be rejected / unknown tag: exit 1, nothing written
    Reject,
    /// `-o` and a regular file sits where the output directory of a tag that is to be written
    /// (or `out` itself) has to be: the tool cannot succeed; it must not report success, must leave
    /// that file alone and touch nothing outside `out/` (what it wrote for earlier tags is not judged)
    Blocked { dir: String, decoy: String },
    Seq {
        /// tags whose results are printed (and written with -o), in order, with their stages (None = library error: nothing)
        tags: Vec<(String, Option<Vec<Vec<String>>>)>,
        output: bool,
        output_all: bool,
        overwrite: bool,
        /// Some(answers) when neither -y nor -n was given and the scripted answers are not all the
        /// same: question k of the invocation gets answers[k % len] (`overwrite` is then true,
        /// i.e. permissive, wherever a single flag is all that can be used)
        pattern: Option<Vec<bool>>,
        /// root-relative project dir
        dir: String,
        all_steps: bool,
    },
    Conv {
        /// None = declined / nothing to check
        target: String,
        model: Option<Model>,
        /// for -r chains: the final words the export must reproduce through asca::run (prefix), if the precondition holds
        roundtrip: Option<Vec<String>>,
        written: bool,
    },
}

pub enum Pred {
    Judged(Expect),
    Unjudgeable,
}

fn is_file(s: &Snap, p: &str) -> bool {
    matches!(s.get(p), Some(Some(_)))
}

/// Every word of `words` re-reads as itself under the aliases of the next stage, AND is spelled
/// with plain cardinal letters only.  The second condition is what makes "staged == all at
/// once" a fair demand (C10's precondition in a form that can be checked from outside): a
/// rendering that needed the diacritic search, or a click (whose letters tokenise ambiguously
/// next to other segments), can re-parse to a *different* segment with the same spelling --
/// observed: `ʛʘ̪ʁɔʊ` after `[+clk] > [+dr]` -- and that is C09/C10's subject, not C20's.
fn fixed_point(words: &[String], into: &[String], oracle: &mut Oracle, diacritics: &[char]) -> bool {
    if COMPOSITION_IS_VERDICT.with(|c| c.get()) {
        // the directed reproductions state C10's precondition as the property does: the
        // intermediate output is renderable and re-reads as the same string
        return matches!(oracle.run(&Req { rules: vec![], words: words.to_vec(), into: into.to_vec(), from: vec![] }), Ans::Ok(v) if v == words);
    }
    const CLICKS: [char; 6] = ['ʘ', 'ǀ', 'ǃ', 'ǁ', '‼', 'ǂ'];
    if words.iter().any(|w| w.chars().any(|c| diacritics.contains(&c) || CLICKS.contains(&c))) {
        return false;
    }
    matches!(oracle.run(&Req { rules: vec![], words: words.to_vec(), into: into.to_vec(), from: vec![] }), Ans::Ok(v) if v == words)
}

pub fn predict(snap: &Snap, inv: &Inv, answer_yes: bool, oracle: &mut Oracle, model: &mut SeqModel, probes: &mut BTreeMap<String, u64>) -> Pred {
    let p = model.p.clone();
    let p = &p;
    match &inv.cmd {
        Cmd::Seq { path, tag, output, overwrite, output_all, all_steps } => {
            let dir = cli::resolve(&inv.cwd, path.as_deref().unwrap_or("."));
            if dir != PROJ {
                return Pred::Unjudgeable;
            }
            if p.bad.is_some() {
                return Pred::Judged(Expect::Reject);
            }
            let names: Vec<String> = match tag {
                Some(t) => {
                    if find_tag(p, t).is_none() {
                        return Pred::Judged(Expect::Reject);
                    }
                    vec![t.clone()]
                }
                None => p.tags.iter().map(|t| t.name.clone()).collect(),
            };
            let mut tags = Vec::new();
            for n in names {
                match model.stages(&n, oracle, probes) {
                    TagRes::Stages(s) => tags.push((n, Some(s))),
                    TagRes::LibErr => tags.push((n, None)),
                    TagRes::Unjudgeable => return Pred::Unjudgeable,
                }
            }
            if *output {
                let outdir = format!("{dir}/out");
                if tags.iter().any(|(_, st)| st.is_some()) && matches!(snap.get(&outdir), Some(Some(_))) {
                    return Pred::Judged(Expect::Blocked { dir, decoy: outdir });
                }
                for (n, st) in &tags {
                    let d = format!("{outdir}/{n}");
                    if st.is_some() && matches!(snap.get(&d), Some(Some(_))) {
                        return Pred::Judged(Expect::Blocked { dir, decoy: d });
                    }
                }
            }
            let pat: Vec<bool> = inv.answer.chars().map(|c| c == 'y').collect();
            let mixed = overwrite.is_none() && pat.iter().any(|b| *b) && pat.iter().any(|b| !*b);
            let ow = overwrite.unwrap_or(answer_yes || mixed);
            Pred::Judged(Expect::Seq { tags, output: *output, output_all: *output_all, overwrite: ow, pattern: if mixed { Some(pat) } else { None }, dir, all_steps: *all_steps })
        }
        Cmd::Edit { .. } => Pred::Unjudgeable,
        Cmd::ConvTag { path, tag, recurse, output } => {
            let dir = cli::resolve(&inv.cwd, path.as_deref().unwrap_or("."));
            if dir != PROJ {
                return Pred::Unjudgeable;
            }
            if p.bad.is_some() {
                return Pred::Judged(Expect::Reject);
            }
            let Some(t) = find_tag(p, tag).cloned() else { return Pred::Judged(Expect::Reject) };
            let target = cli::resolve(&inv.cwd, output.as_deref().unwrap_or("out.json"));
            let written = if is_file(snap, &target) { answer_yes } else { true };
            if snap.get(&target) == Some(&None) {
                return Pred::Unjudgeable;
            }
            let (m, roundtrip);
            if t.parent.is_some() && *recurse {
                let Some(chain) = model.chain(tag) else { return Pred::Unjudgeable };
                let root = chain[0].clone();
                let words = match model.input_words(&root, oracle, probes) {
                    Ok(w) => w,
                    Err(_) => return Pred::Unjudgeable,
                };
                let mut rules = Vec::new();
                for c in &chain {
                    let Some(eg) = model.entry_groups(c) else { return Pred::Unjudgeable };
                    for g in eg {
                        rules.extend(g);
                    }
                }
                let (into, _) = model.alias_of(&root);
                let (_, from) = model.alias_of(&t);
                // the composition law (C20's last clause), under C10's own precondition: every word that
                // crosses a stage boundary re-reads as itself
                let mut rt = None;
                if let TagRes::Stages(fin) = model.stages(tag, oracle, probes) {
                    let mut ok = true;
                    for c in &chain {
                        if let TagRes::Stages(st) = model.stages(&c.name, oracle, probes) {
                            let (ci, _) = model.alias_of(c);
                            for s in &st[1..] {
                                ok &= fixed_point(s, &ci, oracle, &model.diacritics);
                            }
                            // the first stage of the root reads the files with `into`; every later stage re-reads rendered words
                            ok &= c.name == root.name || fixed_point(&st[0], &ci, oracle, &model.diacritics);
                        } else {
                            ok = false;
                        }
                    }
                    if ok {
                        *probes.entry("conv_tag_recurse_roundtrip_checked".into()).or_default() += 1;
                        rt = Some(fin.last().unwrap()[..words.len().min(fin.last().unwrap().len())].to_vec());
                    } else {
                        *probes.entry("conv_tag_recurse_precondition_not_met".into()).or_default() += 1;
                    }
                }
                m = Model { into, from, words, rules };
                roundtrip = rt;
            } else {
                // a parent that fails leaves the tool with an empty word list: not judged
                let words = match model.input_words(&t, oracle, probes) {
                    Ok(w) => w,
                    Err(_) => return Pred::Unjudgeable,
                };
                let Some(eg) = model.entry_groups(&t) else { return Pred::Unjudgeable };
                let rules: Vec<Group> = eg.into_iter().flatten().collect();
                let (into, from) = model.alias_of(&t);
                m = Model { into, from, words, rules };
                roundtrip = None;
            }
            Pred::Judged(Expect::Conv { target, model: Some(m), roundtrip, written })
        }
    }
}

fn lines_of(b: &[u8]) -> Option<Vec<String>> {
    // exactly the lines the tool wrote (a result word may begin or end with spaces), not what a
    // reader of word files would make of them
    std::str::from_utf8(b).ok().map(|t| cli::strip_trailing_empty(t.lines().map(|l| l.to_string()).collect()))
}

fn same_words(b: &[u8], want: &[String]) -> bool {
    lines_of(b).map(|g| g == cli::strip_trailing_empty(want.to_vec())).unwrap_or(false)
}

fn tail(s: &str) -> String {
    let n = s.chars().count();
    if n > 400 {
        s.chars().skip(n - 400).collect()
    } else {
        s.to_string()
    }
}

/// the 40 answer lines scripted on stdin: the letters of `answer` ("y", "n", or a pattern such as
/// "nyy"), repeated
pub fn answer_lines(answer: &str) -> Vec<String> {
    let pat: Vec<char> = if answer.is_empty() { vec!['n'] } else { answer.chars().collect() };
    (0..40).map(|k| pat[k % pat.len()].to_string()).collect()
}

/// the paths the tool asked an overwrite question about, in the order asked (the text between
/// `:: File ` and ` already exists`, which is a Rust debug string, un-escaped)
fn asked_paths(stdout: &str) -> Vec<String> {
    let mut v = Vec::new();
    let mut rest = stdout;
    while let Some(i) = rest.find(":: File \"") {
        let after = &rest[i + 9..];
        let Some(j) = after.find("\" already exists, do you wish to overwrite it?") else { break };
        let raw = &after[..j];
        let mut out = String::new();
        let mut it = raw.chars().peekable();
        while let Some(c) = it.next() {
            if c != '\\' {
                out.push(c);
                continue;
            }
            match it.next() {
                Some('u') => {
                    let mut hex = String::new();
                    if it.peek() == Some(&'{') {
                        it.next();
                        for h in it.by_ref() {
                            if h == '}' {
                                break;
                            }
                            hex.push(h);
                        }
                    }
                    if let Some(ch) = u32::from_str_radix(&hex, 16).ok().and_then(char::from_u32) {
                        out.push(ch);
                    }
                }
                Some('n') => out.push('\n'),
                Some('t') => out.push('\t'),
                Some('r') => out.push('\r'),
                Some('0') => out.push('\0'),
                Some(o) => out.push(o),
                None => {}
            }
        }
        v.push(out);
        rest = &after[j..];
    }
    v
}

fn check_stdout_seq(stdout: &str, tag: &str, stages: &[Vec<String>], all_steps: bool) -> Result<(), String> {
    let lines: Vec<&str> = stdout.lines().collect();
    let header = format!("OUTPUT - {tag}");
    let Some(h) = lines.iter().position(|l| *l == header) else { return Err(format!("no `{header}` block in stdout")) };
    let first = &stages[0];
    let last = stages.last().unwrap();
    for i in 0..first.len() {
        let Some(l) = lines.get(h + 1 + i) else { return Err(format!("block {tag}: line {i} missing")) };
        if first[i].is_empty() {
            if !l.trim().is_empty() {
                return Err(format!("block {tag}: line {i} should be blank, got {l:?}"));
            }
            continue;
        }
        let Some(pos) = l.rfind("=>") else { return Err(format!("block {tag}: line {i} has no arrow: {l:?}")) };
        // cells are padded by the tool; a word may itself begin or end with spaces (a phrase
        // whose first or last word was deleted), so both sides are compared trimmed
        let fin = l[pos + 2..].trim();
        if !l.starts_with(first[i].as_str()) || fin != last[i].trim() {
            return Err(format!("block {tag}: line {i} is {l:?}, expected `{} => {}`", first[i], last[i]));
        }
        if all_steps {
            // -a: every stage in order, separated by arrows
            let cols: Vec<&str> = l.split("=>").map(|c| c.trim()).collect();
            let want: Vec<&str> = stages.iter().map(|st| st[i].trim()).collect();
            if cols != want {
                return Err(format!("block {tag}: line {i} shows stages {cols:?}, expected {want:?}"));
            }
        }
    }
    Ok(())
}

fn under(p: &str, dir: &str) -> bool {
    p.len() > dir.len() && p.starts_with(dir) && p.as_bytes()[dir.len()] == b'/'
}

/// strict check of a fault-free (or benign-fault) invocation
fn check_strict(e: &Expect, o: &InvOut, before: &Snap, after: &Snap, inv_i: usize, oracle: &mut Oracle, watchdog_counts: bool) -> Option<Fail> {
    match e {
        Expect::Reject => {
            if o.out.timed_out || o.out.signal.is_some() {
                if watchdog_counts {
                    return Some(Fail { clause: "cycle-not-rejected", inv: inv_i, detail: format!("a config that must be rejected did not exit in bounded time (timed out {} / signal {:?})", o.out.timed_out, o.out.signal) });
                }
                return None;
            }
            // which non-zero status is the tool's own business
            if o.out.code == Some(0) || o.out.code.is_none() {
                return Some(Fail { clause: "bad-config-accepted", inv: inv_i, detail: format!("exit {:?}, expected a non-zero exit status with a config error; stdout {:?} stderr {:?}", o.out.code, tail(&o.out.stdout), tail(&o.out.stderr)) });
            }
            if before != after {
                return Some(Fail { clause: "bad-config-wrote", inv: inv_i, detail: "a rejected invocation changed the project directory".into() });
            }
            None
        }
        Expect::Blocked { dir, decoy } => {
            if o.out.timed_out || o.out.signal.is_some() || o.out.code == Some(0) {
                return Some(Fail { clause: "exit-status", inv: inv_i, detail: format!("exit {:?} (timed out {}, signal {:?}) although {decoy} is a regular file where an output directory has to be; stdout {:?}", o.out.code, o.out.timed_out, o.out.signal, tail(&o.out.stdout)) });
            }
            let outdir = format!("{dir}/out");
            for (p, c) in before {
                if (p == decoy || !(p == &outdir || under(p, &outdir))) && after.get(p) != Some(c) {
                    return Some(Fail { clause: "conservation", inv: inv_i, detail: format!("{p} changed or disappeared") });
                }
            }
            for p in after.keys() {
                if !before.contains_key(p) && !(p == &outdir || under(p, &outdir)) {
                    return Some(Fail { clause: "conservation", inv: inv_i, detail: format!("unexpected new path {p}") });
                }
            }
            None
        }
        Expect::Seq { tags, output, output_all, overwrite, pattern, dir, all_steps } => {
            if o.out.code != Some(0) && o.out.code.is_some() && !o.out.timed_out && tags.iter().any(|(_, st)| st.is_none()) {
                // a tag of this run fails in the library. Today the tool reports that and goes on to
                // exit 0; a tool that stopped with a non-zero status would claim nothing, so nothing
                // is demanded of out/ then - only that nothing outside out/ was touched
                let outdir = format!("{dir}/out");
                for (p, c) in before {
                    if !(p == &outdir || under(p, &outdir)) && after.get(p) != Some(c) {
                        return Some(Fail { clause: "conservation", inv: inv_i, detail: format!("{p} changed or disappeared") });
                    }
                }
                for p in after.keys() {
                    if !before.contains_key(p) && !(p == &outdir || under(p, &outdir)) {
                        return Some(Fail { clause: "conservation", inv: inv_i, detail: format!("unexpected new path {p}") });
                    }
                }
                return None;
            }
            if o.out.code != Some(0) {
                return Some(Fail { clause: "exit-status", inv: inv_i, detail: format!("exit {:?} signal {:?}, expected 0; stdout {:?} stderr {:?}", o.out.code, o.out.signal, tail(&o.out.stdout), tail(&o.out.stderr)) });
            }
            for (t, st) in tags {
                match st {
                    Some(st) => {
                        if let Err(s) = check_stdout_seq(&o.out.stdout, t, st, *all_steps) {
                            return Some(Fail { clause: "stdout", inv: inv_i, detail: s });
                        }
                    }
                    None => {
                        if o.out.stdout.lines().any(|l| l == format!("OUTPUT - {t}")) {
                            return Some(Fail { clause: "stdout", inv: inv_i, detail: format!("tag {t} has a failing stage but a result block was printed") });
                        }
                    }
                }
            }
            // which directories may change
            let mut allowed: Vec<(String, &Vec<Vec<String>>)> = Vec::new();
            if *output {
                for (t, st) in tags {
                    if let Some(st) = st {
                        allowed.push((format!("{dir}/out/{t}"), st));
                    }
                }
            }
            let outdir = format!("{dir}/out");
            for (p, c) in before {
                if allowed.iter().any(|(d, _)| under(p, d)) {
                    continue;
                }
                if after.get(p) != Some(c) {
                    return Some(Fail { clause: "conservation", inv: inv_i, detail: format!("{p} changed or disappeared") });
                }
            }
            for (p, c) in after {
                if before.contains_key(p) {
                    continue;
                }
                let ok = allowed.iter().any(|(d, _)| under(p, d) || (p == d && c.is_none())) || (p == &outdir && c.is_none() && !allowed.is_empty());
                if !ok {
                    return Some(Fail { clause: "conservation", inv: inv_i, detail: format!("unexpected new path {p}") });
                }
            }
            // with mixed answers: which question concerned which file, and what was answered
            let asked: Vec<(String, bool)> = match pattern {
                Some(pat) => asked_paths(&o.out.stdout).into_iter().enumerate().map(|(k, p)| (p, pat[k % pat.len()])).collect(),
                None => Vec::new(),
            };
            let decision = |p: &str| -> Option<bool> {
                // p is root-relative (`proj/out/<tag>/<file>`); the tool names it relative to its own cwd
                let suffix = &p[dir.len() + 1..];
                asked.iter().find(|(a, _)| a == suffix || a.ends_with(&format!("/{suffix}"))).map(|(_, d)| *d)
            };
            for (d, st) in &allowed {
                if after.get(d) != Some(&None) {
                    return Some(Fail { clause: "missing-output", inv: inv_i, detail: format!("directory {d} was not created; stdout {:?}", tail(&o.out.stdout)) });
                }
                let n_stages = st.len() - 1;
                let mut new_files = 0;
                for (p, c) in after.iter().filter(|(p, _)| under(p, d)) {
                    let Some(bytes) = c else { return Some(Fail { clause: "conservation", inv: inv_i, detail: format!("unexpected directory {p}") }) };
                    let old = before.get(p);
                    if pattern.is_some() && old.is_some() {
                        match decision(p) {
                            Some(false) | None if old != Some(c) => {
                                return Some(Fail { clause: "overwrite-refused-but-changed", inv: inv_i, detail: format!("{p} was overwritten although the question about it was {}; stdout {:?}", if decision(p).is_none() { "never asked" } else { "answered n" }, tail(&o.out.stdout)) });
                            }
                            Some(false) | None => continue,
                            Some(true) => {} // confirmed: must now hold the new words, changed or not
                        }
                    } else if old == Some(c) {
                        continue; // untouched (or rewritten identically)
                    }
                    if old.is_some() && !*overwrite {
                        return Some(Fail { clause: "overwrite-refused-but-changed", inv: inv_i, detail: format!("{p} was overwritten although overwriting was declined") });
                    }
                    if old.is_none() {
                        new_files += 1;
                    }
                    // the role of a written file: with -i stage k from its `k_` prefix, otherwise the final words
                    let base = p.rsplit('/').next().unwrap_or(p);
                    let want: &Vec<String> = if *output_all {
                        let k: Option<usize> = base.split('_').next().and_then(|x| x.parse().ok());
                        match k {
                            Some(k) if k >= 1 && k <= n_stages => &st[k],
                            _ => return Some(Fail { clause: "output-file", inv: inv_i, detail: format!("{p}: written with -i but its name carries no stage number in 1..={n_stages}") }),
                        }
                    } else {
                        st.last().unwrap()
                    };
                    if !same_words(bytes, want) {
                        return Some(Fail { clause: "output-file", inv: inv_i, detail: format!("{p} holds {:?}, expected {:?}", lines_of(bytes), want) });
                    }
                }
                let roles = if *output_all { n_stages } else { 1 };
                if new_files > roles {
                    return Some(Fail { clause: "output-file", inv: inv_i, detail: format!("{new_files} new files in {d}, expected at most {roles}") });
                }
                if pattern.is_some() && before.contains_key(d) {
                    // every file the tag writes either existed (then a question was asked about it) or
                    // is new: questions about files of this directory + new files = files to write
                    let asked_here = asked.iter().filter(|(a, _)| {
                        let dd = &d[dir.len() + 1..];
                        a.starts_with(&format!("{dd}/")) || a.contains(&format!("/{dd}/"))
                    }).count();
                    if asked_here + new_files != roles {
                        return Some(Fail { clause: "missing-output", inv: inv_i, detail: format!("{d}: {asked_here} overwrite question(s) and {new_files} new file(s) for {roles} file(s) to write; stdout {:?}", tail(&o.out.stdout)) });
                    }
                } else if *overwrite || !before.contains_key(d) {
                    // every role must now be present with the right content
                    let files: Vec<(&String, &Vec<u8>)> = after.iter().filter(|(p, _)| under(p, d)).filter_map(|(p, c)| c.as_ref().map(|b| (p, b))).collect();
                    if *output_all {
                        for k in 1..=n_stages {
                            let pre = format!("{k}_");
                            if !files.iter().any(|(p, b)| p.rsplit('/').next().unwrap().starts_with(&pre) && same_words(b, &st[k])) {
                                return Some(Fail { clause: "missing-output", inv: inv_i, detail: format!("{d}: no file `{k}_*` holding stage {k}'s words {:?}; stdout {:?}", st[k], tail(&o.out.stdout)) });
                            }
                        }
                    } else if !files.iter().any(|(_, b)| same_words(b, st.last().unwrap())) {
                        return Some(Fail { clause: "missing-output", inv: inv_i, detail: format!("{d}: no file holding the final words {:?}; stdout {:?}", st.last().unwrap(), tail(&o.out.stdout)) });
                    }
                } else if *output_all {
                    // overwriting declined: a stage's file is either an old one that stayed or a new
                    // one (whose content was checked above) - but there is one for every stage
                    for k in 1..=n_stages {
                        let pre = format!("{k}_");
                        if !after.iter().any(|(p, c)| under(p, d) && c.is_some() && p.rsplit('/').next().unwrap().starts_with(&pre)) {
                            return Some(Fail { clause: "missing-output", inv: inv_i, detail: format!("{d}: no file `{k}_*` for stage {k} although declining an overwrite concerns existing files only; stdout {:?}", tail(&o.out.stdout)) });
                        }
                    }
                }
            }
            None
        }
        Expect::Conv { target, model, roundtrip, written } => {
            if o.out.code != Some(0) {
                return Some(Fail { clause: "exit-status", inv: inv_i, detail: format!("exit {:?} signal {:?}, expected 0; stdout {:?} stderr {:?}", o.out.code, o.out.signal, tail(&o.out.stdout), tail(&o.out.stderr)) });
            }
            for (p, c) in before {
                if p == target && *written {
                    continue;
                }
                if after.get(p) != Some(c) {
                    return Some(Fail { clause: "conservation", inv: inv_i, detail: format!("{p} changed or disappeared") });
                }
            }
            for p in after.keys() {
                if !before.contains_key(p) && !(p == target && *written) {
                    return Some(Fail { clause: "conservation", inv: inv_i, detail: format!("unexpected new path {p}") });
                }
            }
            if *written {
                let Some(Some(b)) = after.get(target) else { return Some(Fail { clause: "missing-output", inv: inv_i, detail: format!("{target} was not written") }) };
                let got: Model = match std::str::from_utf8(b).ok().and_then(|t| serde_json::from_str(t).ok()) {
                    Some(m) => m,
                    None => return Some(Fail { clause: "conv-content", inv: inv_i, detail: format!("{target} is not a json project") }),
                };
                if let Some(m) = model {
                    if got.normalised() != m.normalised() {
                        return Some(Fail { clause: "conv-content", inv: inv_i, detail: format!("{target} holds {:?}, expected {:?}", got.normalised(), m.normalised()) });
                    }
                }
                if let Some(fin) = roundtrip {
                    match oracle.run(&Req { rules: got.rules.clone(), words: got.words.clone(), into: got.into.clone(), from: got.from.clone() }) {
                        Ans::Ok(v) => {
                            if &v != fin {
                                // Staged != all at once can only come from the library (the export and the
                                // staged files have both just been checked against the model): it means an
                                // intermediate word did not survive render -> parse, which is C09/C10's
                                // subject.  It is a verdict only for the directed reproductions of the
                                // listed known findings; in the generated space it is counted, not judged.
                                if COMPOSITION_IS_VERDICT.with(|c| c.get()) {
                                    return Some(Fail { clause: "history-composition", inv: inv_i, detail: format!("asca::run on the exported history gives {v:?}, the staged pipeline gives {fin:?}") });
                                }
                                COMPOSITION_MISMATCHES.with(|c| c.set(c.get() + 1));
                            }
                        }
                        Ans::Unstable | Ans::Hang | Ans::Panic => {}
                        Ans::Err(e) => {
                            if COMPOSITION_IS_VERDICT.with(|c| c.get()) {
                                return Some(Fail { clause: "history-composition", inv: inv_i, detail: format!("asca::run on the exported history fails ({e}) but the staged pipeline gives {fin:?}") });
                            }
                            COMPOSITION_MISMATCHES.with(|c| c.set(c.get() + 1));
                        }
                    }
                }
            }
            None
        }
    }
}

/// paths an invocation may legitimately create or change
fn may_touch(e: &Expect, p: &str) -> bool {
    match e {
        Expect::Reject => false,
        Expect::Blocked { dir, decoy } => p != decoy && (p == format!("{dir}/out") || under(p, &format!("{dir}/out"))),
        Expect::Seq { tags, output, dir, .. } => {
            if !*output {
                return false;
            }
            let outdir = format!("{dir}/out");
            p == outdir || tags.iter().any(|(t, st)| st.is_some() && (p == format!("{outdir}/{t}") || under(p, &format!("{outdir}/{t}"))))
        }
        Expect::Conv { target, .. } => p == target,
    }
}

/// may an existing file at `p` be rewritten by this invocation at all? (not when overwriting
/// was refused: -n, or every prompt answered no)
fn declined_ok(e: &Expect, before: &Snap, p: &str) -> bool {
    match e {
        Expect::Seq { overwrite, .. } => *overwrite || !before.contains_key(p),
        Expect::Conv { written, .. } => *written,
        Expect::Reject => false,
        Expect::Blocked { .. } => true,
    }
}

fn is_prefix(a: &[u8], full: &[u8]) -> bool {
    full.len() >= a.len() && &full[..a.len()] == a
}

fn check_relaxed(e: &Expect, fo: &InvOut, rec: &InvOut, before: &Snap, rec_after: &Snap, after: &Snap, inv_i: usize, crash: bool) -> Option<Fail> {
    for (p, c) in before {
        if may_touch(e, p) {
            continue;
        }
        if after.get(p) != Some(c) {
            return Some(Fail { clause: "conservation-under-fault", inv: inv_i, detail: format!("{p} changed or disappeared under an injected fault") });
        }
    }
    for p in before.keys() {
        if !after.contains_key(p) {
            return Some(Fail { clause: "wrong-data-under-fault", inv: inv_i, detail: format!("{p} existed before the invocation and is gone") });
        }
    }
    for (p, c) in after {
        if before.get(p) == Some(c) {
            continue;
        }
        if !may_touch(e, p) {
            return Some(Fail { clause: "conservation-under-fault", inv: inv_i, detail: format!("unexpected new or changed path {p} under an injected fault") });
        }
        let ok = match (c, rec_after.get(p)) {
            (None, Some(None)) => true,
            (Some(n), Some(Some(r))) => declined_ok(e, before, p) && is_prefix(n, r),
            _ => false,
        };
        if !ok {
            return Some(Fail { clause: "wrong-data-under-fault", inv: inv_i, detail: format!("{p} holds data that is neither its old content nor a prefix of the correct content") });
        }
    }
    // exit status 0 is a report of success, whatever was printed
    if !crash && fo.out.code == Some(0) {
        for (p, c) in rec_after {
            if may_touch(e, p) && after.get(p) != Some(c) {
                return Some(Fail { clause: "silent-failure", inv: inv_i, detail: format!("exit status 0 although an I/O fault was injected, but {p} differs from the fault-free result; stdout {:?}", tail(&fo.out.stdout)) });
            }
        }
    }
    // ... and it must have printed what the fault-free run prints: a fault that was swallowed and
    // changed what the user is told (an input that was skipped, a stage that was not run) is a
    // failure reported as success
    if !crash && fo.out.code == Some(0) && fo.faults_fired > 0 && fo.out.stdout != rec.out.stdout {
        return Some(Fail { clause: "silent-failure", inv: inv_i, detail: format!("exit status 0 although an I/O fault was injected, but stdout differs from the fault-free run: {:?} instead of {:?}", tail(&fo.out.stdout), tail(&rec.out.stdout)) });
    }
    None
}

fn log_inv(st: &mut Stats, o: &InvOut, after: &Snap) {
    let mut f = Fnv(st.log ^ 0x77);
    f.u64(o.out.code.unwrap_or(-1) as u64);
    f.str(&o.out.stdout);
    for op in &o.ops {
        f.str(&op.kind);
        f.str(&op.arg);
        f.str(&op.ret);
        f.str(&op.fault);
    }
    for (p, c) in after {
        f.str(p);
        if let Some(b) = c {
            f.bytes(b);
        }
    }
    st.log = f.0;
}

fn probe(st: &mut Stats, k: &str) {
    *st.probes.entry(k.to_string()).or_default() += 1;
}

fn note_probes(st: &mut Stats, p: &Project, inv: &Inv, e: &Expect, before: &Snap) {
    if let Some(b) = &p.bad {
        probe(st, &format!("bad_config_{b}"));
    }
    if let (Cmd::Seq { tag, overwrite, .. }, Expect::Seq { tags, dir, output, .. }) = (&inv.cmd, e) {
        if tag.is_none() && p.tags.iter().any(|t| t.parent.is_some()) {
            // all-tags mode: a child's input comes from the cache or from recursion depending on file order
            let mut seen: BTreeSet<&str> = BTreeSet::new();
            for t in &p.tags {
                if let Some(pa) = &t.parent {
                    probe(st, if seen.contains(pa.as_str()) { "child_input_from_cache" } else { "child_input_from_recursion" });
                }
                seen.insert(&t.name);
            }
        }
        if tag.is_some() && p.tags.iter().find(|t| Some(&t.name) == tag.as_ref()).map(|t| t.parent.is_some()).unwrap_or(false) {
            probe(st, "single_tag_with_parent_recursion");
        }
        let mut kids: BTreeMap<&str, u32> = BTreeMap::new();
        for t in &p.tags {
            if let Some(pa) = &t.parent {
                *kids.entry(pa.as_str()).or_default() += 1;
            }
        }
        if kids.values().any(|&n| n >= 2) {
            probe(st, "fork_two_children_of_one_parent");
        }
        if tags.iter().any(|(_, s)| s.is_none()) {
            probe(st, "tag_or_descendant_of_failing_stage");
        }
        if *output && *overwrite == Some(false) && tags.iter().any(|(t, _)| before.keys().any(|k| under(k, &format!("{dir}/out/{t}")))) {
            probe(st, "no_overwrite_with_existing_file");
        }
        for t in &p.tags {
            for en in &t.entries {
                if let Some((k, names)) = &en.filter {
                    let groups = &p.rule_files[&en.file];
                    if *k == '~' && names.len() >= 2 {
                        let pos: Vec<usize> = names.iter().filter_map(|n| groups.iter().position(|g| g.name.to_lowercase() == n.to_lowercase())).collect();
                        if pos.windows(2).any(|w| w[0] > w[1]) {
                            probe(st, "only_filter_order_differs_from_file_order");
                        }
                    }
                    if names.iter().any(|n| !groups.iter().any(|g| &g.name == n)) {
                        probe(st, "filter_case_differs_from_group_name");
                    }
                    if *k == '!' && names.len() >= 2 {
                        probe(st, "exclude_filter_with_several_names");
                    }
                }
            }
        }
    }
}

pub fn run_history(root: &str, scn: &mut Scn, oracle: &mut Oracle, st: &mut Stats) -> Option<Fail> {
    let r = run_history_inner(root, scn, oracle, st);
    cli::set_iocap(0);
    r
}

fn run_history_inner(root: &str, scn: &mut Scn, oracle: &mut Oracle, st: &mut Stats) -> Option<Fail> {
    cli::write_tree(root, &scn.files, &scn.dirs);
    COMPOSITION_IS_VERDICT.with(|c| c.set(scn.directed.is_some()));
    COMPOSITION_MISMATCHES.with(|c| c.set(0));
    let mut model = SeqModel::new(&scn.project, diacritics());
    let mut probes: BTreeMap<String, u64> = BTreeMap::new();
    let mut result = None;
    for i in 0..scn.invs.len() {
        let inv = scn.invs[i].clone();
        if let Cmd::Edit { path, text, rules, words } = &inv.cmd {
            // the user edits a project file between two invocations
            let full = format!("{root}/{path}");
            std::fs::write(&full, text).unwrap_or_else(|e| harness_error(&format!("edit {full}: {e}")));
            if let Some((stem, g)) = rules {
                model.p.rule_files.insert(stem.clone(), g.clone());
            }
            if let Some((stem, w)) = words {
                model.p.word_files.insert(stem.clone(), w.clone());
            }
            model.invalidate();
            probe(st, "project_edited_between_invocations");
            continue;
        }
        let before = cli::snapshot(root);
        let args = inv.cmd.argv();
        let answers: Vec<String> = answer_lines(&inv.answer);
        let stdin = cli::stdin_script(&answers);
        let e = match predict(&before, &inv, inv.answer.starts_with('y'), oracle, &mut model, &mut probes) {
            Pred::Judged(e) => e,
            Pred::Unjudgeable => {
                st.unjudgeable += 1;
                break;
            }
        };
        note_probes(st, &model.p, &inv, &e, &before);
        cli::set_iocap(inv.iocap);
        if inv.iocap > 0 {
            st.probe("invocations_under_transfer_cap");
        }
        let rec = cli::exec(root, &inv.cwd, &args, &stdin, inv.detrand, inv.dirseed, &vec![]);
        st.invocations += 1;
        st.ops += rec.ops.len() as u64;
        st.getrandom += rec.getrandom_calls;
        let reject = matches!(e, Expect::Reject);
        if rec.out.timed_out && !reject {
            // same reasoning as in c19: the library answered every stage in the oracle processes
            st.hangs += 1;
            result = Some(Fail { clause: "no-exit", inv: i, detail: format!("no exit within {} s on a fault-free invocation with all prompts answered; stdout so far {:?}", cli::INV_TIMEOUT_MS / 1000, tail(&rec.out.stdout)) });
            break;
        }
        let rec_after = cli::snapshot(root);
        log_inv(st, &rec, &rec_after);
        st.judged += 1;
        if let Some(f) = check_strict(&e, &rec, &before, &rec_after, i, oracle, true) {
            result = Some(f);
            break;
        }
        if rec_after != before || reject {
            st.effects += 1;
        }
        if inv.class != FaultClass::None {
            let plan = if inv.plan.is_empty() {
                let mut fr = Rng::new(inv.fault_seed);
                cli::draw_plan(&rec.ops, inv.class, &mut fr)
            } else {
                inv.plan.clone()
            };
            scn.invs[i].plan = plan.clone();
            if !plan.is_empty() {
                cli::restore(root, &before);
                let fo = cli::exec(root, &inv.cwd, &args, &stdin, inv.detrand, inv.dirseed, &plan);
                st.invocations += 1;
                st.ops += fo.ops.len() as u64;
                crate::c19::count_faults(st, &fo);
                if fo.out.timed_out {
                    st.hangs += 1;
                    break;
                }
                let after = cli::snapshot(root);
                log_inv(st, &fo, &after);
                if fo.faults_fired == 0 {
                    if let Some(f) = check_strict(&e, &fo, &before, &after, i, oracle, false) {
                        result = Some(f);
                        break;
                    }
                } else {
                    match inv.class {
                        FaultClass::Benign => {
                            if let Some(mut f) = check_strict(&e, &fo, &before, &after, i, oracle, false) {
                                f.clause = "benign-fault-changed-result";
                                f.detail = format!("plan {} : {}", cli::plan_string(&plan), f.detail);
                                result = Some(f);
                                break;
                            }
                            if fo.out.stdout != rec.out.stdout || after != rec_after {
                                result = Some(Fail { clause: "benign-fault-changed-result", inv: i, detail: format!("plan {}: stdout or files differ from the fault-free run", cli::plan_string(&plan)) });
                                break;
                            }
                        }
                        _ => {
                            if let Some(mut f) = check_relaxed(&e, &fo, &rec, &before, &rec_after, &after, i, fo.crashed) {
                                f.detail = format!("plan {} : {}", cli::plan_string(&plan), f.detail);
                                result = Some(f);
                                break;
                            }
                            if fo.crashed && plan.iter().any(|(_, k)| k == "TORN" || k == "CRASH_AFTER") && after != before {
                                probe(st, "crash_left_partial_output");
                            }
                            if inv.recover {
                                let yes: Vec<String> = (0..40).map(|_| "y".to_string()).collect();
                                let mut inv2 = inv.clone();
                                if let Cmd::Seq { overwrite, output, .. } = &mut inv2.cmd {
                                    if *output {
                                        *overwrite = Some(true);
                                    }
                                }
                                let e2 = match predict(&after, &inv2, true, oracle, &mut model, &mut probes) {
                                    Pred::Judged(e2) => e2,
                                    Pred::Unjudgeable => {
                                        st.unjudgeable += 1;
                                        break;
                                    }
                                };
                                let ro = cli::exec(root, &inv2.cwd, &inv2.cmd.argv(), &cli::stdin_script(&yes), inv.detrand, inv.dirseed, &vec![]);
                                st.invocations += 1;
                                if ro.out.timed_out {
                                    st.hangs += 1;
                                    break;
                                }
                                let after2 = cli::snapshot(root);
                                log_inv(st, &ro, &after2);
                                probe(st, "recovery_after_fault");
                                if let Some(mut f) = check_strict(&e2, &ro, &after, &after2, i, oracle, false) {
                                    f.clause = "recovery";
                                    f.detail = format!("after plan {} and a fault-free repeat with overwrite confirmed: {}", cli::plan_string(&plan), f.detail);
                                    result = Some(f);
                                    break;
                                }
                            }
                        }
                    }
                }
            }
        }
    }
    for (k, v) in probes {
        *st.probes.entry(k).or_default() += v;
    }
    let mism = COMPOSITION_MISMATCHES.with(|c| c.get());
    if mism > 0 {
        *st.probes.entry("composition_differs_from_all_at_once_not_judged".into()).or_default() += mism;
    }
    result
}

// ------------------------------------------------------------------ shrinking, reporting

fn fails_same(root: &str, scn: &Scn, clause: &str, oracle: &mut Oracle, budget: &mut u32) -> Option<(Scn, Fail)> {
    if *budget == 0 {
        return None;
    }
    *budget -= 1;
    let mut s = scn.clone();
    let mut st = Stats::default();
    match run_history(root, &mut s, oracle, &mut st) {
        Some(f) if f.clause == clause => Some((s, f)),
        _ => None,
    }
}

/// re-render the project files plainly after a structural reduction
fn rerender(scn: &Scn) -> Scn {
    let mut s = scn.clone();
    let conf = s.files.keys().find(|k| k.ends_with(".asca")).cloned();
    let mut r = Rng::new(7);
    if let Some(c) = conf {
        s.files.insert(c, c20gen::render_config(&s.project, &mut r));
    }
    s
}

pub fn shrink(root: &str, scn: &Scn, fail: &Fail, oracle: &mut Oracle) -> (Scn, Fail) {
    let mut budget = if fail.clause == "no-exit" || fail.clause == "cycle-not-rejected" { 8u32 } else { 150u32 };
    let mut cur = scn.clone();
    let mut curf = fail.clone();
    cur.invs.truncate(curf.inv + 1);
    let mut i = 0;
    while i + 1 < cur.invs.len() {
        let mut cand = cur.clone();
        cand.invs.remove(i);
        if let Some((s, f)) = fails_same(root, &cand, curf.clause, oracle, &mut budget) {
            cur = s;
            curf = f;
        } else {
            i += 1;
        }
    }
    for i in 0..cur.invs.len() {
        if cur.invs[i].class != FaultClass::None {
            let mut cand = cur.clone();
            cand.invs[i].class = FaultClass::None;
            cand.invs[i].plan.clear();
            cand.invs[i].recover = false;
            if let Some((s, f)) = fails_same(root, &cand, curf.clause, oracle, &mut budget) {
                cur = s;
                curf = f;
            }
        }
    }
    // drop tags nobody needs (leaves first), then entries, then filters
    loop {
        let mut progressed = false;
        for ti in 0..cur.project.tags.len() {
            let name = cur.project.tags[ti].name.clone();
            if cur.project.tags.iter().any(|t| t.parent.as_deref() == Some(&name)) && cur.project.bad.is_none() {
                continue;
            }
            if cur.project.tags.len() <= 1 {
                break;
            }
            let mut cand = cur.clone();
            cand.project.tags.remove(ti);
            let cand = rerender(&cand);
            if let Some((s, f)) = fails_same(root, &cand, curf.clause, oracle, &mut budget) {
                cur = s;
                curf = f;
                progressed = true;
                break;
            }
        }
        if !progressed || budget == 0 {
            break;
        }
    }
    for ti in 0..cur.project.tags.len() {
        let mut ei = 0;
        while cur.project.tags[ti].entries.len() > 1 && ei < cur.project.tags[ti].entries.len() {
            let mut cand = cur.clone();
            cand.project.tags[ti].entries.remove(ei);
            let cand = rerender(&cand);
            if let Some((s, f)) = fails_same(root, &cand, curf.clause, oracle, &mut budget) {
                cur = s;
                curf = f;
            } else {
                ei += 1;
            }
        }
        for ei in 0..cur.project.tags[ti].entries.len() {
            if cur.project.tags[ti].entries[ei].filter.is_some() {
                let mut cand = cur.clone();
                cand.project.tags[ti].entries[ei].filter = None;
                let cand = rerender(&cand);
                if let Some((s, f)) = fails_same(root, &cand, curf.clause, oracle, &mut budget) {
                    cur = s;
                    curf = f;
                }
            }
        }
    }
    (cur, curf)
}

pub fn to_violation(scn: &Scn, f: &Fail, seed: u64) -> Violation {
    let inv = &scn.invs[f.inv.min(scn.invs.len() - 1)];
    let shape: Vec<String> = inv.cmd.argv().into_iter().filter(|x| x.starts_with('-') || ["seq", "conv", "tag"].contains(&x.as_str())).collect();
    let mut signature = format!("{}[{}]{}", shape.join("_"), cli::plan_string(&inv.plan), scn.project.bad.clone().map(|b| format!("bad={b}")).unwrap_or_default());
    if let Some(name) = &scn.directed {
        // a listed known finding is identified by its exact project and by exactly what was observed
        signature = format!("directed-{name}-{:08x}", prng::digest_str(&f.detail) as u32);
    }
    let conf = scn.files.iter().find(|(k, _)| k.ends_with(".asca")).map(|(_, v)| v.clone()).unwrap_or_default();
    let detail = format!(
        "clause {} at invocation {} of {}: `asca {}` (cwd {:?}, answer {:?}, DETRAND_SEED={}, plan [{}])\n  config:\n{}\n  {}",
        f.clause,
        f.inv,
        scn.invs.len(),
        inv.cmd.argv().join(" "),
        inv.cwd,
        inv.answer,
        inv.detrand,
        cli::plan_string(&inv.plan),
        conf.lines().map(|l| format!("    | {l}")).collect::<Vec<_>>().join("\n"),
        f.detail
    );
    let replay = json!({
        "property": "C20", "engine": "c20", "verif_seed": seed, "clause": f.clause,
        "scenario": scn,
        "argv": scn.invs.iter().map(|i| i.cmd.argv()).collect::<Vec<_>>(),
        "observed": {"invocation": f.inv, "detail": f.detail},
        "expected": "out/<tag>/ holds asca::run composed per the config (entries in listed order, % starts from the parent's final words plus extra word files, ! removes and ~ keeps-in-named-order case-insensitively); bad configs exit 1 in bounded time writing nothing; conv tag exports the structure; under injected faults no wrong data and no silent failure",
    });
    Violation { property: "C20".into(), clause: f.clause.into(), signature, detail, replay }
}

/// Hand-written reproductions of the listed known findings: a root tag running `r1`, a child
/// running `r2`, one word; `seq -o -y`, then `conv tag child -r`, whose export is run through
/// asca::run and compared with what seq wrote (the last clause of C20, literally).
pub fn directed_cases() -> Vec<Scn> {
    let cases: [(&str, &str, &[&str], &[&str]); 2] = [
        ("click-retokenised", "ʛʘ̪ʁɔʊ", &["O > [Alar] / _O:[Alar]"], &["[+clk] > [+dr]"]),
        ("stray-final-consonant", "ˈre.kri.u", &["k > k$a", "%% > &", "k > k%", "C$ > & / $_"], &["{p, t, k} > {b, d, g}"]),
    ];
    let mut v = Vec::new();
    for (name, word, r1, r2) in cases {
        let g = |n: &str, r: &[&str]| vec![Group { name: n.to_string(), rule: r.iter().map(|x| x.to_string()).collect(), description: String::new() }];
        let mut rule_files = BTreeMap::new();
        rule_files.insert("first".to_string(), g("First", r1));
        rule_files.insert("second".to_string(), g("Second", r2));
        let mut word_files = BTreeMap::new();
        word_files.insert("lex".to_string(), vec![word.to_string()]);
        let tags = vec![
            Tag { name: "root".into(), parent: None, alias: None, words: vec!["lex".into()], entries: vec![c20gen::Entry { file: "first".into(), filter: None }] },
            Tag { name: "child".into(), parent: Some("root".into()), alias: None, words: vec![], entries: vec![c20gen::Entry { file: "second".into(), filter: None }] },
        ];
        let project = Project { tags, rule_files, word_files, alias_files: BTreeMap::new(), bad: None };
        let mut files = BTreeMap::new();
        files.insert(format!("{PROJ}/config.asca"), "@root [\"lex\"]: \"first\"\n@child %root: \"second\"\n".to_string());
        files.insert(format!("{PROJ}/first.rsca"), format!("@ First\n{}\n", r1.iter().map(|x| format!("    {x}")).collect::<Vec<_>>().join("\n")));
        files.insert(format!("{PROJ}/second.rsca"), format!("@ Second\n{}\n", r2.iter().map(|x| format!("    {x}")).collect::<Vec<_>>().join("\n")));
        files.insert(format!("{PROJ}/lex.wsca"), format!("{word}\n"));
        let inv = |cmd: Cmd| Inv { cmd, cwd: PROJ.to_string(), answer: "y".into(), detrand: 12345, dirseed: 0, class: FaultClass::None, plan: vec![], fault_seed: 0, recover: false, iocap: 0 };
        let invs = vec![
            inv(Cmd::Seq { path: None, tag: None, output: true, all_steps: false, overwrite: Some(true), output_all: false }),
            inv(Cmd::ConvTag { path: None, tag: "child".into(), recurse: true, output: Some("export.json".into()) }),
        ];
        v.push(Scn { project, files, dirs: vec![PROJ.to_string()], invs, directed: Some(name.to_string()) });
    }
    v
}

pub struct Tier {
    pub name: &'static str,
    pub clean: usize,
    pub faulty: usize,
    pub bad: usize,
    pub enum_bases: usize,
}

pub fn tier(name: &str) -> Tier {
    match name {
        "thorough" => Tier { name: "thorough", clean: 50_000, faulty: 50_000, bad: 6_000, enum_bases: 300 },
        "mini" => Tier { name: "quick", clean: 120, faulty: 120, bad: 30, enum_bases: 2 },
        _ => Tier { name: "quick", clean: 2_000, faulty: 2_000, bad: 300, enum_bases: 8 },
    }
}

fn scenario_for(d: &Data, seed: u64, tr: &Tier, i: usize) -> Scn {
    let mut r = Rng::derive(seed, prng::D_GEN, 5_000_000 + i as u64);
    if i < tr.clean {
        c20gen::gen_scn(d, &mut r, false, None)
    } else if i < tr.clean + tr.faulty {
        c20gen::gen_scn(d, &mut r, true, None)
    } else {
        let kind = ["cycle", "cycle", "cycle", "dangling", "duplicate", "two-configs"][r.below(6)];
        c20gen::gen_scn(d, &mut r, false, Some(kind))
    }
}

pub fn main_c20(tier_name: &str, seed: u64) -> i32 {
    let t0 = Instant::now();
    let tr = tier(tier_name);
    let d = Data::load();
    set_diacritics(&d.diacritics);
    let known = Known::load();
    let scratch = Scratch::new("c20");
    let workers = proc::workers();
    println!("c20 tier={} VERIF_SEED={} workers={}", tr.name, seed, workers);
    // ---- directed reproductions of the listed known findings (KNOWN_FINDINGS.txt)
    let mut directed_fails: Vec<(usize, Scn, Fail)> = Vec::new();
    {
        let mut oracle = Oracle::new(crate::c19::oracle_keys(seed));
        let mut dst = Stats::default();
        let root = format!("{}/directed", scratch.path);
        for (i, mut scn) in directed_cases().into_iter().enumerate() {
            if let Some(f) = run_history(&root, &mut scn, &mut oracle, &mut dst) {
                directed_fails.push((i, scn, f));
            }
        }
        let _ = std::fs::remove_dir_all(&root);
    }
    let total = tr.clean + tr.faulty + tr.bad;
    let chunk = 50usize;
    let nchunks = (total + chunk - 1) / chunk;
    let results = par_map(nchunks, workers, |c| {
        let mut oracle = Oracle::new(crate::c19::oracle_keys(seed));
        let mut st = Stats::default();
        let mut fails: Vec<(usize, Scn, Fail)> = Vec::new();
        let mut samples: Vec<Value> = Vec::new();
        let mut digests: Vec<(u64, bool)> = Vec::new();
        let root = format!("{}/p{}", scratch.path, c);
        for i in (c * chunk)..((c + 1) * chunk).min(total) {
            let mut scn = scenario_for(&d, seed, &tr, i);
            let before_judged = st.judged;
            let before_effects = st.effects;
            let f = run_history(&root, &mut scn, &mut oracle, &mut st);
            let mut fd = Fnv::new();
            fd.str(&serde_json::to_string(&scn).unwrap());
            digests.push((fd.0, st.judged > before_judged && st.effects > before_effects));
            if i % 499 == 0 && samples.len() < 3 {
                let conf = scn.files.iter().find(|(k, _)| k.ends_with(".asca")).map(|(_, v)| v.clone()).unwrap_or_default();
                samples.push(json!({"scenario_index": i, "config": conf, "bad": scn.project.bad, "invocations": scn.invs.iter().map(|x| format!("asca {} [answer {} class {:?} plan {}]", x.cmd.argv().join(" "), x.answer, x.class, cli::plan_string(&x.plan))).collect::<Vec<_>>()}));
            }
            if let Some(f) = f {
                if fails.len() < 2 {
                    fails.push((i, scn, f));
                }
            }
        }
        let _ = std::fs::remove_dir_all(&root);
        st.probes.insert("oracle_queries".into(), oracle.queries);
        st.probes.insert("oracle_unstable".into(), oracle.unstable);
        (st, fails, samples, digests)
    });
    let mut st = Stats::default();
    let mut all_fails = Vec::new();
    let mut samples = Vec::new();
    let mut distinct: BTreeSet<u64> = BTreeSet::new();
    for (s, f, sm, dg) in results {
        st.merge(&s);
        all_fails.extend(f);
        for x in sm {
            if samples.len() < 6 {
                samples.push(x);
            }
        }
        for (dig, judged) in dg {
            if judged {
                distinct.insert(dig);
            }
        }
    }

    // ---- enumerated sub-space: every single-fault placement of `seq -o -y [-i]` on a few projects
    let mut enum_runs = 0u64;
    let mut enum_placements = 0u64;
    if all_fails.is_empty() {
        let res = par_map(tr.enum_bases, workers, |b| {
            let mut oracle = Oracle::new(crate::c19::oracle_keys(seed));
            let mut st = Stats::default();
            let root = format!("{}/e{}", scratch.path, b);
            let mut r = Rng::derive(seed, prng::D_FAULT, 7_000_000 + b as u64);
            let mut base = c20gen::gen_scn(&d, &mut r, false, None);
            base.invs.clear();
            base.invs.push(Inv {
                cmd: Cmd::Seq { path: None, tag: None, output: true, all_steps: false, overwrite: Some(true), output_all: b % 2 == 0 },
                cwd: PROJ.into(),
                answer: "y".into(),
                detrand: r.next_u64() | 1,
                dirseed: r.next_u64() | 1,
                class: FaultClass::None,
                plan: vec![],
                fault_seed: 0,
                recover: false,
                iocap: 0,
            });
            let mut fails = Vec::new();
            let mut placements = 0u64;
            cli::write_tree(&root, &base.files, &base.dirs);
            let inv = &base.invs[0];
            let o = cli::exec(&root, &inv.cwd, &inv.cmd.argv(), &cli::stdin_script(&[]), inv.detrand, inv.dirseed, &vec![]);
            if !o.out.timed_out {
                for (idx, kind, class) in cli::all_single_faults(&o.ops) {
                    let mut s = base.clone();
                    s.invs[0].class = class;
                    s.invs[0].plan = vec![(idx, kind.to_string())];
                    s.invs[0].recover = class != FaultClass::Benign;
                    placements += 1;
                    if let Some(f) = run_history(&root, &mut s, &mut oracle, &mut st) {
                        if fails.len() < 2 {
                            fails.push((1_000_000 + b, s, f));
                        }
                    }
                }
            }
            let _ = std::fs::remove_dir_all(&root);
            (st, fails, placements)
        });
        for (s, f, p) in res {
            enum_runs += s.invocations;
            enum_placements += p;
            st.merge(&s);
            all_fails.extend(f);
        }
    }

    let mut violations = Vec::new();
    for (_, scn, f) in &directed_fails {
        // not minimised: these are already minimal and must keep their identity
        violations.push(to_violation(scn, f, seed));
    }
    if !all_fails.is_empty() {
        all_fails.sort_by_key(|(i, _, _)| *i);
        println!("c20: {} failing histories; minimising the first of each clause", all_fails.len());
        let mut oracle = Oracle::new(crate::c19::oracle_keys(seed));
        let root = format!("{}/shrink", scratch.path);
        let mut done: BTreeSet<&'static str> = BTreeSet::new();
        let mut tried: BTreeMap<&'static str, u32> = BTreeMap::new();
        for (_, scn, f) in &all_fails {
            if done.contains(f.clause) || (done.len() >= 3 && !tried.contains_key(f.clause)) {
                continue;
            }
            let n = tried.entry(f.clause).or_default();
            if *n >= 8 {
                continue;
            }
            *n += 1;
            let (s, sf) = shrink(&root, scn, f, &mut oracle);
            let v = to_violation(&s, &sf, seed);
            let is_known = known.matches(&v).is_some();
            violations.push(v);
            if !is_known {
                done.insert(f.clause);
            }
        }
    }

    if violations.is_empty() && tier_name != "mini" {
        let need = [
            "child_input_from_cache", "child_input_from_recursion", "single_tag_with_parent_recursion", "fork_two_children_of_one_parent",
            "only_filter_order_differs_from_file_order", "filter_case_differs_from_group_name", "exclude_filter_with_several_names",
            "tag_or_descendant_of_failing_stage", "no_overwrite_with_existing_file", "bad_config_cycle-1", "bad_config_cycle-2", "bad_config_dangling",
            "bad_config_duplicate", "recovery_after_fault", "conv_tag_recurse_roundtrip_checked",
        ];
        for n in need {
            if st.probes.get(n).copied().unwrap_or(0) == 0 {
                harness_error(&format!("probe {n} is zero: the workload missed what it is for"));
            }
        }
        if st.getrandom == 0 || st.ops == 0 {
            harness_error("the interposer saw no getrandom call or no file operation: seam dead");
        }
    }
    let wall = t0.elapsed().as_secs_f64();
    let mut extra = BTreeMap::new();
    extra.insert("histories".into(), json!(total));
    extra.insert("invocations".into(), json!(st.invocations));
    extra.insert("invocations_judged".into(), json!(st.judged));
    extra.insert("histories_unjudgeable_from_some_point".into(), json!(st.unjudgeable));
    extra.insert("skipped_hangs".into(), json!(st.hangs));
    extra.insert("sim_ops_intercepted".into(), json!(st.ops));
    extra.insert("faults_fired".into(), json!(st.faults));
    let by_op: BTreeMap<String, u64> = st.probes.iter().filter(|(k, _)| k.starts_with("fault:")).map(|(k, v)| (k[6..].to_string(), *v)).collect();
    st.probes.retain(|k, _| !k.starts_with("fault:"));
    extra.insert("faults_by_operation".into(), json!(by_op));
    extra.insert("probes".into(), json!(st.probes));
    extra.insert("fault_enumeration".into(), json!({"base_projects": tr.enum_bases, "single_fault_placements": enum_placements, "invocations": enum_runs, "exhaustive_over": "every operation index x every applicable fault kind of `seq -o -y [-i]` on each base project"}));
    extra.insert("runs_per_hour".into(), json!(((st.invocations as f64) / wall * 3600.0) as u64));
    extra.insert("seeds_per_hour".into(), json!(3600.0 / wall));
    extra.insert("simulated_time".into(), json!("none: asca reads no clock; the only wall-clock verdict is 'a config that must be rejected exits' with a 20 s bound (normal: 3 ms)"));
    extra.insert("event_log_digest".into(), json!(format!("{:016x}", st.log)));
    extra.insert("real_vs_stub".into(), report::real_vs_stub());
    extra.insert("known_findings_reproduced".into(), json!(violations.iter().filter(|v| known.matches(v).is_some()).map(|v| format!("{}:{}", v.clause, v.signature)).collect::<Vec<_>>()));
    Evidence {
        property: "C20".into(),
        tier: tr.name.into(),
        seed,
        level: "exploration".into(),
        evaluations: st.invocations,
        distinct_nontrivial: distinct.len() as u64,
        rule: "a case is one history (project tree of 1-4 tags + 1-6 seq/conv-tag invocations + fault plans; a separate sub-batch has cyclic, dangling and duplicate-tag configs); distinct by digest of the explicit scenario including the drawn plans; non-trivial when at least one invocation was judged against the reference model AND changed the simulated disk, had an injected fault fire, or was a bad config that had to be rejected".into(),
        samples,
        exhaustive: false,
        extra,
        assumptions: vec![
            "asca::run is the reference for each stage (the property composes it)".into(),
            "doc/doc-cli.md for config syntax, filters, pipelines and word-file concatenation, restricted to forms the manual settles".into(),
            "output file names are not part of the property: written files are identified by snapshot difference and, with -i, by their stage-number prefix".into(),
        ],
        wall_s: wall,
        violations: violations.iter().filter(|v| known.matches(v).is_none()).count() as u64,
    }
    .write();
    println!("c20: {} histories, {} invocations ({} judged), {} ops, faults {:?}, digest {:016x}, {:.1}s", total, st.invocations, st.judged, st.ops, st.faults, st.log, wall);
    report::finish("C20", violations, &known)
}

pub fn replay(doc: &Value, path: &str) -> i32 {
    set_diacritics(&Data::load().diacritics);
    let scratch = Scratch::new("c20r");
    let seed = doc.get("verif_seed").and_then(|v| v.as_u64()).unwrap_or(1);
    let mut scn: Scn = serde_json::from_value(doc["scenario"].clone()).unwrap_or_else(|e| harness_error(&format!("bad replay: {e}")));
    let mut oracle = Oracle::new(crate::c19::oracle_keys(seed));
    let mut st = Stats::default();
    let root = format!("{}/r", scratch.path);
    match run_history(&root, &mut scn, &mut oracle, &mut st) {
        Some(f) => {
            println!("{}", to_violation(&scn, &f, seed).detail);
            println!("VIOLATION property=C20 replay={path}");
            1
        }
        None => {
            println!("replay: not reproduced");
            0
        }
    }
}
