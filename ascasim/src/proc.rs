//! Process control: every system-under-test execution is a fresh child process with a
//! cleared environment, the interposer preloaded, scripted stdin and a watchdog.

use std::io::{Read, Write};
use std::process::{Command, Stdio};
use std::sync::atomic::{AtomicUsize, Ordering};
use std::time::{Duration, Instant};

/// build products live under <verif dir>/target (the verif dir is /verif unless VERIF_DIR says otherwise)
pub fn asca_bin() -> String {
    format!("{}/target/asca/release/asca", crate::gen::verif_dir())
}
pub fn simio() -> String {
    format!("{}/target/libsimio.so", crate::gen::verif_dir())
}

pub fn self_exe() -> String {
    std::env::current_exe().expect("current_exe").to_string_lossy().into_owned()
}

pub struct RunSpec<'a> {
    pub exe: &'a str,
    pub args: Vec<String>,
    pub cwd: Option<&'a str>,
    pub env: Vec<(String, String)>,
    pub stdin: Vec<u8>,
    pub timeout_ms: u64,
}

#[derive(Debug, Clone, Default)]
pub struct RunOut {
    pub code: Option<i32>,
    pub signal: Option<i32>,
    pub stdout: String,
    pub stderr: String,
    pub timed_out: bool,
}

pub fn run(spec: RunSpec) -> std::io::Result<RunOut> {
    use std::os::unix::process::ExitStatusExt;
    let mut cmd = Command::new(spec.exe);
    cmd.args(&spec.args).env_clear();
    for (k, v) in &spec.env {
        cmd.env(k, v);
    }
    if let Some(c) = spec.cwd {
        cmd.current_dir(c);
    }
    cmd.stdin(Stdio::piped()).stdout(Stdio::piped()).stderr(Stdio::piped());
    let mut child = cmd.spawn()?;
    let mut stdin = child.stdin.take();
    if let Some(si) = stdin.as_mut() {
        // scripts are tiny (far below the pipe buffer); the write end stays open until
        // the child has exited so that the child never sees EOF on stdin
        let _ = si.write_all(&spec.stdin);
        let _ = si.flush();
    }
    let mut so = child.stdout.take().unwrap();
    let mut se = child.stderr.take().unwrap();
    let t_out = std::thread::spawn(move || {
        let mut b = Vec::new();
        let _ = so.read_to_end(&mut b);
        b
    });
    let t_err = std::thread::spawn(move || {
        let mut b = Vec::new();
        let _ = se.read_to_end(&mut b);
        b
    });
    let start = Instant::now();
    let deadline = Duration::from_millis(spec.timeout_ms);
    let mut nap = Duration::from_micros(100);
    let mut timed_out = false;
    let status = loop {
        match child.try_wait()? {
            Some(st) => break st,
            None => {
                if start.elapsed() > deadline {
                    timed_out = true;
                    let _ = child.kill();
                    break child.wait()?;
                }
                std::thread::sleep(nap);
                if nap < Duration::from_millis(2) {
                    nap *= 2;
                }
            }
        }
    };
    drop(stdin);
    let stdout = t_out.join().unwrap_or_default();
    let stderr = t_err.join().unwrap_or_default();
    Ok(RunOut {
        code: status.code(),
        signal: status.signal(),
        stdout: String::from_utf8_lossy(&stdout).into_owned(),
        stderr: String::from_utf8_lossy(&stderr).into_owned(),
        timed_out,
    })
}

pub fn sim_env(detrand: u64) -> Vec<(String, String)> {
    vec![("LD_PRELOAD".into(), simio()), ("DETRAND_SEED".into(), detrand.to_string())]
}

/// Deterministic parallel map: item i is computed by whichever worker gets to it, the
/// result vector is ordered by i, and nothing about item i may depend on the worker.
pub fn par_map<T: Send, F: Fn(usize) -> T + Sync>(n: usize, workers: usize, f: F) -> Vec<T> {
    let next = AtomicUsize::new(0);
    let mut slots: Vec<Option<T>> = (0..n).map(|_| None).collect();
    let slots_ptr = SlotsPtr(slots.as_mut_ptr());
    std::thread::scope(|s| {
        for _ in 0..workers.max(1).min(n.max(1)) {
            let next = &next;
            let f = &f;
            let sp = &slots_ptr;
            s.spawn(move || loop {
                let i = next.fetch_add(1, Ordering::SeqCst);
                if i >= n {
                    break;
                }
                let v = f(i);
                // each index is claimed by exactly one worker
                unsafe { *sp.0.add(i) = Some(v) };
            });
        }
    });
    slots.into_iter().map(|o| o.expect("slot filled")).collect()
}
struct SlotsPtr<T>(*mut Option<T>);
unsafe impl<T: Send> Sync for SlotsPtr<T> {}
unsafe impl<T: Send> Send for SlotsPtr<T> {}

pub fn workers() -> usize {
    std::env::var("VERIF_WORKERS").ok().and_then(|s| s.parse().ok()).unwrap_or_else(|| {
        std::thread::available_parallelism().map(|n| n.get()).unwrap_or(4).min(16)
    })
}

/// per-run scratch directory on tmpfs, removed by `Scratch::drop`
pub struct Scratch {
    pub path: String,
}
impl Scratch {
    pub fn new(tag: &str) -> Self {
        let base = if std::path::Path::new("/dev/shm").is_dir() { "/dev/shm" } else { "/tmp" };
        // scratch of runs that were killed (their Drop never ran): remove if the owner is gone
        if let Ok(rd) = std::fs::read_dir(base) {
            for e in rd.filter_map(|e| e.ok()) {
                let name = e.file_name().to_string_lossy().into_owned();
                if let Some(rest) = name.strip_prefix("ascasim.") {
                    if let Some(pid) = rest.split('.').next().and_then(|p| p.parse::<u32>().ok()) {
                        if !std::path::Path::new(&format!("/proc/{pid}")).exists() {
                            let _ = std::fs::remove_dir_all(e.path());
                            let _ = std::fs::remove_file(e.path());
                        }
                    }
                }
            }
        }
        let path = format!("{base}/ascasim.{}.{tag}", std::process::id());
        let _ = std::fs::remove_dir_all(&path);
        std::fs::create_dir_all(&path).unwrap_or_else(|e| {
            eprintln!("HARNESS-ERROR: cannot create scratch {path}: {e}");
            std::process::exit(2)
        });
        Scratch { path }
    }
}
impl Drop for Scratch {
    fn drop(&mut self) {
        let _ = std::fs::remove_dir_all(&self.path);
    }
}
