//! A *library instance*: one OS process that links the real `asca` library and
//! executes a list of calls under a schedule decided by the simulator.
//!
//! The process is started under libsimio.so with its own DETRAND_SEED, so every
//! `RandomState` created in it (one `getrandom` per thread that creates a map) is
//! decided by the simulator.  Inside the process there are T caller threads; they
//! are real threads, but each waits on its own channel and exactly one of them runs
//! at any time: *which* thread executes the next call -- and therefore which thread
//! initialises the library's lazy statics with *its* hash keys -- is read from the
//! schedule, never left to the OS.

use serde::{Deserialize, Serialize};
use std::io::Write;
use std::sync::mpsc;
use std::sync::Arc;
use std::time::Duration;

#[derive(Serialize, Deserialize, Clone, Debug, PartialEq, Eq)]
pub struct Group {
    pub name: String,
    pub rule: Vec<String>,
    pub description: String,
}

impl Group {
    pub fn anon(rules: Vec<String>) -> Self {
        Group { name: String::new(), rule: rules, description: String::new() }
    }
    pub fn to_asca(&self) -> asca::RuleGroup {
        asca::RuleGroup { name: self.name.clone(), rule: self.rule.clone(), description: self.description.clone() }
    }
}

#[derive(Serialize, Deserialize, Clone, Debug, PartialEq, Eq)]
pub struct Call {
    /// "run" | "trace" | "changes"
    pub kind: String,
    pub rules: Vec<Group>,
    /// run: the word list; trace/changes: exactly one phrase
    pub words: Vec<String>,
    pub into: Vec<String>,
    pub from: Vec<String>,
}

#[derive(Serialize, Deserialize, Clone, Debug, PartialEq, Eq)]
pub struct Step {
    pub call: usize,
    pub thread: usize,
    /// "base" | "perm" | "single"
    pub v: String,
    /// perm: new order (output k is base word p[k]); single: [i]
    #[serde(default)]
    pub p: Vec<usize>,
}

#[derive(Serialize, Deserialize, Clone, Debug)]
pub struct Job {
    pub batch: String,
    pub threads: usize,
    pub steps: Vec<Step>,
    /// per-call watchdog in milliseconds
    pub hang_ms: u64,
}

pub const SEP: char = '\u{2}';

/// Execute one call against the real library and flatten the outcome to a string.
/// `O<sep>w1<sep>w2…` | `E<sep>Debug(Error)` | `P<sep>panic message`
pub fn exec_call(c: &Call, words: &[String]) -> String {
    let r = std::panic::catch_unwind(std::panic::AssertUnwindSafe(|| exec_inner(c, words)));
    match r {
        Ok(s) => s,
        Err(p) => {
            let msg = if let Some(s) = p.downcast_ref::<&str>() {
                s.to_string()
            } else if let Some(s) = p.downcast_ref::<String>() {
                s.clone()
            } else {
                "?".to_string()
            };
            format!("P{SEP}{msg}")
        }
    }
}

fn exec_inner(c: &Call, words: &[String]) -> String {
    let rules: Vec<asca::RuleGroup> = c.rules.iter().map(|g| g.to_asca()).collect();
    match c.kind.as_str() {
        "run" => match asca::run(&rules, words, &c.into, &c.from) {
            Ok(v) => {
                let mut s = String::from("O");
                for w in v {
                    s.push(SEP);
                    s.push_str(&w);
                }
                s
            }
            Err(e) => format!("E{SEP}{:?}", e),
        },
        "trace" => match asca::get_trace_string(&rules, words.first().cloned().unwrap_or_default(), &c.into) {
            Ok(v) => {
                let mut s = String::from("O");
                for w in v {
                    s.push(SEP);
                    s.push_str(&w);
                }
                s
            }
            Err(e) => format!("E{SEP}{:?}", e),
        },
        "changes" => match asca::trace_changes(&rules, words.first().cloned().unwrap_or_default(), &c.into) {
            Ok(v) => {
                let mut s = String::from("O");
                for ch in v {
                    s.push(SEP);
                    s.push_str(&format!("{}:{:?}", ch.rule_index, ch.after));
                }
                s
            }
            Err(e) => format!("E{SEP}{:?}", e),
        },
        _ => format!("E{SEP}unknown call kind"),
    }
}

pub fn variant_words(c: &Call, st: &Step) -> Vec<String> {
    match st.v.as_str() {
        "perm" => st.p.iter().map(|&i| c.words[i].clone()).collect(),
        "single" => vec![c.words[st.p[0]].clone()],
        _ => c.words.clone(),
    }
}

pub fn read_batch(path: &str) -> Vec<Call> {
    let txt = std::fs::read_to_string(path).unwrap_or_else(|e| {
        eprintln!("instance: cannot read batch {path}: {e}");
        std::process::exit(2)
    });
    serde_json::from_str(&txt).unwrap_or_else(|e| {
        eprintln!("instance: bad batch {path}: {e}");
        std::process::exit(2)
    })
}

/// `ascasim instance <job.json>`: prints one JSON string per step on stdout.
/// Exit 0 normally; exit 3 after printing `H <step>` if a call exceeded the watchdog.
pub fn main_instance(job_path: &str) -> ! {
    std::panic::set_hook(Box::new(|_| {}));
    let job: Job = serde_json::from_str(&std::fs::read_to_string(job_path).expect("job file")).expect("job json");
    let calls = Arc::new(read_batch(&job.batch));
    let nthreads = job.threads.max(1);

    // caller threads, each parked on its own channel
    let (res_tx, res_rx) = mpsc::channel::<String>();
    let mut txs: Vec<mpsc::Sender<Step>> = Vec::new();
    for _t in 1..nthreads {
        let (tx, rx) = mpsc::channel::<Step>();
        let calls = calls.clone();
        let res_tx = res_tx.clone();
        std::thread::Builder::new()
            .stack_size(16 << 20)
            .spawn(move || {
                while let Ok(st) = rx.recv() {
                    let c = &calls[st.call];
                    let out = exec_call(c, &variant_words(c, &st));
                    if res_tx.send(out).is_err() {
                        break;
                    }
                }
            })
            .expect("spawn");
        txs.push(tx);
    }
    // thread 0 is the main thread itself, but it also needs a watchdog: run it in a
    // dedicated thread too so the scheduler loop below is only a scheduler.  To keep
    // "thread 0 == the process's main thread" meaningful (std treats the main thread's
    // hash keys no differently, but its stack and TLS setup differ) thread 0 executes
    // calls on the real main thread and the watchdog for it lives in a helper thread.
    let stdout = std::io::stdout();
    let mut out = std::io::BufWriter::new(stdout.lock());
    let hang = Duration::from_millis(job.hang_ms.max(1));

    let (wd_tx, wd_rx) = mpsc::channel::<(usize, bool)>(); // (step index, started?)
    {
        // watchdog for main-thread calls: if a started step does not finish in time, report and exit
        let hang = hang;
        std::thread::spawn(move || {
            let mut current: Option<usize> = None;
            loop {
                match current {
                    None => match wd_rx.recv() {
                        Ok((i, true)) => current = Some(i),
                        Ok((_, false)) => {}
                        Err(_) => return,
                    },
                    Some(i) => match wd_rx.recv_timeout(hang) {
                        Ok((_, false)) => current = None,
                        Ok((j, true)) => current = Some(j),
                        Err(mpsc::RecvTimeoutError::Timeout) => {
                            // the main thread holds the stdout lock; write raw
                            let msg = format!("\nH {i}\n");
                            unsafe {
                                libc_write(1, msg.as_ptr(), msg.len());
                                libc_exit(3);
                            }
                        }
                        Err(_) => return,
                    },
                }
            }
        });
    }

    for (i, st) in job.steps.iter().enumerate() {
        let s = if st.thread == 0 || st.thread >= nthreads {
            let _ = out.flush();
            let _ = wd_tx.send((i, true));
            let c = &calls[st.call];
            let r = exec_call(c, &variant_words(c, st));
            let _ = wd_tx.send((i, false));
            r
        } else {
            txs[st.thread - 1].send(st.clone()).expect("send");
            match res_rx.recv_timeout(hang) {
                Ok(s) => s,
                Err(_) => {
                    let _ = writeln!(out, "H {i}");
                    let _ = out.flush();
                    std::process::exit(3);
                }
            }
        };
        let _ = writeln!(out, "{}", serde_json::to_string(&s).unwrap());
    }
    let _ = out.flush();
    std::process::exit(0);
}

extern "C" {
    #[link_name = "write"]
    fn libc_write(fd: i32, buf: *const u8, n: usize) -> isize;
    #[link_name = "_exit"]
    fn libc_exit(code: i32) -> !;
}
