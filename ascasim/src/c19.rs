//! Engine c19 -- "the command line gives the library's answers and converts files
//! losslessly" (DESIGN.md 4.2): histories of `asca run` / `conv asca` / `conv json`
//! invocations against one simulated project directory, with fault injection.

use crate::c19gen::{self, Cmd, Inv, Meaning, Scn};
use crate::cli::{self, FaultClass, InvOut, Model, Snap};
use crate::gen::{harness_error, Data};
use crate::oracle::{Ans, Oracle, Req};
use crate::prng::{self, Fnv, Rng};
use crate::proc::{self, par_map, Scratch};
use crate::report::{self, Evidence, Known, Violation};
use serde_json::{json, Value};
use std::collections::{BTreeMap, BTreeSet};
use std::time::Instant;

#[derive(Clone, Debug)]
pub struct Expect {
    pub exit: i32,
    /// (input words, results, compare words if -c)
    pub run_ok: Option<(Vec<String>, Vec<String>, Option<Vec<String>>)>,
    /// exact stdout (library error path)
    pub err_text: Option<String>,
    pub writes: Vec<(String, Meaning)>,
    /// every path this invocation may legitimately create or change
    pub may_touch: Vec<String>,
    /// `-o <existing directory>`: the help text says out.<ext> goes INTO that directory, the tool
    /// as it stands puts it into the current directory; both are accepted, but never an overwrite
    /// the user declined, never wrong content, never another path
    pub either: Option<Either>,
}

#[derive(Clone, Debug)]
pub struct Either {
    pub cands: Vec<String>,
    pub meaning: Meaning,
    pub yes: bool,
}

pub enum Pred {
    Judged(Expect),
    Unjudgeable(String),
}

fn ext_of(p: &str) -> Option<&str> {
    let name = p.rsplit('/').next().unwrap_or(p);
    // std's Path::extension: None for ".foo" and for names without a dot
    let idx = name.rfind('.')?;
    if idx == 0 {
        return None;
    }
    Some(&name[idx + 1..])
}

fn parent_of(p: &str) -> String {
    match p.rfind('/') {
        Some(i) => p[..i].to_string(),
        None => String::new(),
    }
}

fn is_file(s: &Snap, p: &str) -> bool {
    matches!(s.get(p), Some(Some(_)))
}
fn is_dir(s: &Snap, p: &str) -> bool {
    p.is_empty() || matches!(s.get(p), Some(None))
}

/// exit 0 or 1, nothing may change (see Target::Refuse)
fn refuse() -> Pred {
    Pred::Judged(Expect { exit: -1, run_ok: None, err_text: None, writes: vec![], may_touch: vec![], either: None })
}

fn fail() -> Pred {
    Pred::Judged(Expect { exit: 1, run_ok: None, err_text: None, writes: vec![], may_touch: vec![], either: None })
}

/// files directly inside `dir` with one of the extensions
fn discover(s: &Snap, dir: &str, exts: &[&str]) -> Vec<String> {
    s.iter()
        .filter(|(p, c)| c.is_some() && parent_of(p) == dir && ext_of(p).map(|e| exts.contains(&e)).unwrap_or(false))
        .map(|(p, _)| p.clone())
        .collect()
}

enum Res<T> {
    Got(T),
    Fail,
    Unknown(String),
}

struct Ctx<'a> {
    snap: &'a Snap,
    meaning: &'a BTreeMap<String, Meaning>,
    cwd: &'a str,
}

impl<'a> Ctx<'a> {
    /// resolve an input given explicitly or by discovery; checks extension and existence
    fn input(&self, given: &Option<String>, exts: &[&str], discover_ok: bool) -> Res<String> {
        match given {
            Some(p) => {
                let path = cli::resolve(self.cwd, p);
                match ext_of(p) {
                    Some(e) if exts.contains(&e) => {}
                    _ => return Res::Fail,
                }
                if is_file(self.snap, &path) {
                    Res::Got(path)
                } else if self.snap.contains_key(&path) {
                    Res::Unknown(format!("{path} is a directory"))
                } else {
                    Res::Fail
                }
            }
            None => {
                if !discover_ok {
                    return Res::Fail;
                }
                let c = discover(self.snap, self.cwd, exts);
                if c.len() == 1 {
                    Res::Got(c[0].clone())
                } else {
                    Res::Fail
                }
            }
        }
    }
    fn words(&self, p: &str) -> Res<Vec<String>> {
        match self.meaning.get(p) {
            Some(Meaning::Words(w)) => Res::Got(w.clone()),
            _ => Res::Unknown(format!("meaning of {p} as a word file is not known")),
        }
    }
    fn rules(&self, p: &str) -> Res<Vec<crate::instance::Group>> {
        match self.meaning.get(p) {
            Some(Meaning::Rules(g)) => Res::Got(g.clone()),
            _ => Res::Unknown(format!("meaning of {p} as a rule file is not known")),
        }
    }
    fn alias(&self, p: &str) -> Res<(Vec<String>, Vec<String>)> {
        match self.meaning.get(p) {
            Some(Meaning::Alias(i, f)) => Res::Got((i.clone(), f.clone())),
            _ => Res::Unknown(format!("meaning of {p} as an alias file is not known")),
        }
    }
    fn json(&self, p: &str) -> Res<Model> {
        match self.meaning.get(p) {
            Some(Meaning::Json(m)) => Res::Got(m.clone()),
            _ => Res::Unknown(format!("meaning of {p} as a json project is not known")),
        }
    }
}

macro_rules! get {
    ($e:expr) => {
        match $e {
            Res::Got(v) => v,
            Res::Fail => return fail(),
            Res::Unknown(s) => return Pred::Unjudgeable(s),
        }
    };
}

/// outcome of writing to an explicit target (`write_to_file`) or to a default name in cwd (`dir_create_file`)
enum Target {
    /// the path names an existing directory
    Dir(Vec<String>),
    Write(String),
    Declined(String),
    Fail(Vec<String>),
    /// a path without any extension that does not exist, while `<path>.<ext>` does and every
    /// scripted answer declines: whether the tool refuses the path (it does) or would take it for
    /// `<path>.<ext>` and ask, that file stays as it is, and nothing else is demanded
    Refuse,
    Unknown(String),
}

fn target(snap: &Snap, cwd: &str, given: &Option<String>, default_name: &str, ext: &str, answers: &[String], ai: &mut usize) -> Target {
    let (path, explicit) = match given {
        Some(p) => (cli::resolve(cwd, p), true),
        None => (cli::resolve(cwd, default_name), false),
    };
    if is_file(snap, &path) {
        if explicit && ext_of(&path) != Some(ext) {
            return Target::Fail(vec![]);
        }
        let (yes, next) = cli::prompt_answer(answers, *ai);
        *ai = next;
        if yes {
            Target::Write(path)
        } else {
            Target::Declined(path)
        }
    } else if snap.contains_key(&path) {
        if !explicit {
            return Target::Unknown(format!("default target {path} is a directory"));
        }
        // uniform answers only: which of the two candidates the tool asks about is not predicted
        let uniform = answers.iter().all(|a| a.starts_with('y')) || answers.iter().all(|a| a.starts_with('n'));
        if !uniform || answers.is_empty() {
            return Target::Unknown(format!("target {path} is a directory and the answers are mixed"));
        }
        Target::Dir(vec![format!("{path}/out.{ext}"), cli::resolve(cwd, &format!("out.{ext}"))])
    } else {
        if explicit && ext_of(&path).is_none() && is_dir(snap, &parent_of(&path)) {
            // not in the manual; the tool refuses such a path today, a tool that completed it to
            // `<path>.<ext>` would not break the property - unless it overwrote that file unasked
            let declines = !answers.is_empty() && answers.iter().all(|a| a.is_empty() || a.starts_with('n') || a.starts_with('N'));
            return if is_file(snap, &format!("{path}.{ext}")) && declines { Target::Refuse } else { Target::Unknown(format!("target {path} has no extension")) };
        }
        if explicit && ext_of(&path) != Some(ext) {
            return Target::Fail(vec![]);
        }
        if !is_dir(snap, &parent_of(&path)) {
            return Target::Fail(vec![]);
        }
        Target::Write(path)
    }
}

/// The reference model of one invocation (written from doc/doc-cli.md and `asca --help`).
pub fn predict(snap: &Snap, meaning: &BTreeMap<String, Meaning>, inv: &Inv, answers: &[String], oracle: &mut Oracle) -> Pred {
    let cx = Ctx { snap, meaning, cwd: &inv.cwd };
    if !is_dir(snap, &inv.cwd) {
        return Pred::Unjudgeable("cwd missing".into());
    }
    let mut ai = 0usize;
    match &inv.cmd {
        Cmd::Run { rules, json, words, alias, output, compare } => {
            let (w, g, into, from);
            if json.is_some() {
                let jp = get!(cx.input(json, &["json"], false));
                let m = get!(cx.json(&jp));
                w = if words.is_some() {
                    let wp = get!(cx.input(words, &["wsca", "txt"], false));
                    get!(cx.words(&wp))
                } else {
                    m.words.clone()
                };
                (into, from) = if alias.is_some() {
                    let ap = get!(cx.input(alias, &["alias", "txt"], false));
                    get!(cx.alias(&ap))
                } else {
                    (m.into.clone(), m.from.clone())
                };
                g = m.rules.clone();
            } else {
                let wp = get!(cx.input(words, &["wsca", "txt"], true));
                let rp = get!(cx.input(rules, &["rsca", "txt"], true));
                w = get!(cx.words(&wp));
                g = get!(cx.rules(&rp));
                (into, from) = if alias.is_some() {
                    let ap = get!(cx.input(alias, &["alias", "txt"], false));
                    get!(cx.alias(&ap))
                } else {
                    (vec![], vec![])
                };
            }
            match oracle.run(&Req { rules: g, words: w.clone(), into, from }) {
                Ans::Ok(res) => {
                    let mut cmpw = None;
                    if compare.is_some() {
                        let cp = get!(cx.input(compare, &["wsca", "txt"], false));
                        cmpw = Some(get!(cx.words(&cp)));
                    }
                    let mut writes = vec![];
                    let mut may = vec![];
                    let mut exit = 0;
                    let mut either = None;
                    if output.is_some() {
                        match target(snap, &inv.cwd, output, "", "wsca", answers, &mut ai) {
                            Target::Dir(cands) => {
                                let content = res.join("\n");
                                may.extend(cands.iter().cloned());
                                either = Some(Either { cands, meaning: Meaning::Words(cli::read_wsca(&content)), yes: answers.iter().all(|a| a.starts_with('y')) });
                            }
                            Target::Write(p) => {
                                let content = res.join("\n");
                                may.push(p.clone());
                                writes.push((p, Meaning::Words(cli::read_wsca(&content))));
                            }
                            Target::Declined(p) => may.push(p),
                            Target::Fail(_) => exit = 1,
                            Target::Refuse => return refuse(),
                            Target::Unknown(s) => return Pred::Unjudgeable(s),
                        }
                    }
                    Pred::Judged(Expect { exit, run_ok: Some((w, res, cmpw)), err_text: None, writes, may_touch: may, either })
                }
                // the tool prints the library's message and exits 0 today; the status of a run that
                // only reports an error is not the property's business (0 or 1), the message is
                Ans::Err(text) => Pred::Judged(Expect { exit: -1, run_ok: None, err_text: Some(format!("{text}\n")), writes: vec![], may_touch: vec![], either: None }),
                other => Pred::Unjudgeable(format!("library answer is {other:?}")),
            }
        }
        Cmd::Edit { .. } => Pred::Unjudgeable("edit step".into()),
        Cmd::ConvAsca { words, rules, alias, output } => {
            let wp = get!(cx.input(words, &["wsca", "txt"], true));
            let rp = get!(cx.input(rules, &["rsca", "txt"], true));
            let w = get!(cx.words(&wp));
            let g = get!(cx.rules(&rp));
            let (into, from) = if alias.is_some() {
                let ap = get!(cx.input(alias, &["alias", "txt"], false));
                get!(cx.alias(&ap))
            } else {
                (vec![], vec![])
            };
            let m = Model { into, from, words: w, rules: g };
            match target(snap, &inv.cwd, output, "out.json", "json", answers, &mut ai) {
                Target::Write(p) => Pred::Judged(Expect { exit: 0, run_ok: None, err_text: None, may_touch: vec![p.clone()], writes: vec![(p, Meaning::Json(m))], either: None }),
                Target::Dir(cands) => Pred::Judged(Expect { exit: 0, run_ok: None, err_text: None, may_touch: cands.clone(), writes: vec![], either: Some(Either { cands, meaning: Meaning::Json(m), yes: answers.iter().all(|a| a.starts_with('y')) }) }),
                Target::Declined(p) => Pred::Judged(Expect { exit: 0, run_ok: None, err_text: None, writes: vec![], may_touch: vec![p], either: None }),
                Target::Fail(_) => fail(),
                Target::Refuse => refuse(),
                Target::Unknown(s) => Pred::Unjudgeable(s),
            }
        }
        Cmd::ConvJson { path, words, rules, alias } => {
            let jp = get!(cx.input(path, &["json"], true));
            let m = get!(cx.json(&jp));
            let mut writes = vec![];
            let mut may = vec![];
            let mut exit = 0;
            let wcontent = m.words.join("\n");
            let parts: Vec<(&Option<String>, &str, &str, Option<Meaning>)> = vec![
                (words, "out.wsca", "wsca", Some(Meaning::Words(cli::read_wsca(&wcontent)))),
                (rules, "out.rsca", "rsca", Some(Meaning::Rules(m.rules.clone()))),
                (alias, "out.alias", "alias", if m.into.is_empty() && m.from.is_empty() { None } else { Some(Meaning::Alias(m.into.clone(), m.from.clone())) }),
            ];
            for (given, def, ext, mean) in parts {
                let Some(mean) = mean else { continue };
                match target(snap, &inv.cwd, given, def, ext, answers, &mut ai) {
                    Target::Write(p) => {
                        may.push(p.clone());
                        writes.push((p, mean));
                    }
                    Target::Declined(p) => may.push(p),
                    Target::Fail(_) => {
                        exit = 1;
                        break;
                    }
                    Target::Refuse => return if may.is_empty() { refuse() } else { Pred::Unjudgeable("extension-less target after other targets of conv json".into()) },
                    Target::Dir(_) => return Pred::Unjudgeable("directory target of conv json".into()),
                    Target::Unknown(s) => return Pred::Unjudgeable(s),
                }
            }
            Pred::Judged(Expect { exit, run_ok: None, err_text: None, writes, may_touch: may, either: None })
        }
    }
}

fn content_matches(bytes: &[u8], m: &Meaning) -> Result<(), String> {
    let text = match std::str::from_utf8(bytes) {
        Ok(t) => t,
        Err(_) => return Err("file is not valid UTF-8".into()),
    };
    match m {
        Meaning::Words(w) => {
            let got = cli::strip_trailing_empty(cli::read_wsca(text));
            let want = cli::strip_trailing_empty(w.clone());
            if got == want {
                Ok(())
            } else {
                Err(format!("word file holds {got:?}, expected {want:?}"))
            }
        }
        Meaning::Rules(g) => {
            let got = cli::nonempty_groups(&cli::read_rsca(text));
            let want = cli::nonempty_groups(g);
            if got == want {
                Ok(())
            } else {
                Err(format!("rule file holds {got:?}, expected {want:?}"))
            }
        }
        Meaning::Alias(i, f) => {
            let (gi, gf) = cli::read_alias(text);
            if gi == cli::nonempty_lines(i) && gf == cli::nonempty_lines(f) {
                Ok(())
            } else {
                Err(format!("alias file holds into {gi:?} from {gf:?}, expected into {i:?} from {f:?}"))
            }
        }
        Meaning::Json(m) => match serde_json::from_str::<Model>(text) {
            Ok(got) => {
                if got.normalised() == m.normalised() {
                    Ok(())
                } else {
                    Err(format!("json holds {:?}, expected {:?}", got.normalised(), m.normalised()))
                }
            }
            Err(e) => Err(format!("json does not parse: {e}")),
        },
        Meaning::Other => Ok(()),
    }
}

#[derive(Clone, Debug)]
pub struct Fail {
    pub clause: &'static str,
    pub inv: usize,
    pub detail: String,
}

fn check_stdout_run(stdout: &str, words: &[String], res: &[String], cmp: &Option<Vec<String>>) -> Result<(), String> {
    let lines: Vec<&str> = stdout.lines().collect();
    match cmp {
        None => {
            if lines.first() != Some(&"OUTPUT") {
                return Err(format!("stdout does not start with OUTPUT: {:?}", lines.first()));
            }
            if lines.len() < 1 + words.len() {
                return Err(format!("stdout has {} result lines, expected {}", lines.len().saturating_sub(1), words.len()));
            }
            for (i, (w, r)) in words.iter().zip(res.iter()).enumerate() {
                let l = lines[1 + i];
                if w.is_empty() && r.is_empty() {
                    if !l.trim().is_empty() {
                        return Err(format!("line {i}: expected a blank line, got {l:?}"));
                    }
                } else if !(l.starts_with(w.as_str()) && l.ends_with(&format!(" => {r}"))) {
                    return Err(format!("line {i}: got {l:?}, expected `{w} => {r}`"));
                }
            }
            Ok(())
        }
        Some(c) => {
            // header line, blank line, then one line per zip(compare, result)
            if lines.len() < 2 {
                return Err("comparison output too short".into());
            }
            let body = &lines[2..];
            for (i, (cw, r)) in c.iter().zip(res.iter()).enumerate() {
                let Some(l) = body.get(i) else { return Err(format!("comparison line {i} missing")) };
                if cw.is_empty() && r.is_empty() {
                    if !l.trim().is_empty() {
                        return Err(format!("comparison line {i}: expected blank, got {l:?}"));
                    }
                } else if !(l.starts_with(cw.as_str()) && l.ends_with(&format!(" | {r}"))) {
                    return Err(format!("comparison line {i}: got {l:?}, expected `{cw} | {r}`"));
                }
            }
            // the listing must still show every result when the comparison file is shorter
            // (and every expected word when it is longer)
            let n = c.len().min(res.len());
            for (k, r) in res.iter().enumerate().skip(n) {
                let Some(l) = body.get(k) else { return Err(format!("result {k} ({r:?}) is missing from the comparison listing")) };
                if !l.trim_end().ends_with(&format!("| {r}").trim_end().to_string()) {
                    return Err(format!("comparison line {k}: got {l:?}, expected `| {r}`"));
                }
            }
            for (k, cw) in c.iter().enumerate().skip(n) {
                let Some(l) = body.get(k) else { return Err(format!("expected word {k} ({cw:?}) is missing from the comparison listing")) };
                if !l.starts_with(cw.as_str()) {
                    return Err(format!("comparison line {k}: got {l:?}, expected `{cw} |`"));
                }
            }
            Ok(())
        }
    }
}

/// strict check of a fault-free (or benign-fault) invocation
fn check_strict(e: &Expect, o: &InvOut, before: &Snap, after: &Snap, inv_i: usize) -> Option<Fail> {
    if e.exit < 0 {
        if o.out.code.is_none() {
            return Some(Fail { clause: "exit-status", inv: inv_i, detail: format!("exit {:?} signal {:?}, expected the tool to exit by itself", o.out.code, o.out.signal) });
        }
    } else if e.exit == 1 {
        // a refusal or a failure: which non-zero status is the tool's own business
        if o.out.code == Some(0) || o.out.code.is_none() {
            return Some(Fail { clause: "exit-status", inv: inv_i, detail: format!("exit {:?} signal {:?}, expected a non-zero exit status; stdout {:?} stderr {:?}", o.out.code, o.out.signal, tail(&o.out.stdout), tail(&o.out.stderr)) });
        }
    } else if o.out.code != Some(e.exit) {
        return Some(Fail { clause: "exit-status", inv: inv_i, detail: format!("exit {:?} signal {:?}, expected exit {}; stdout {:?} stderr {:?}", o.out.code, o.out.signal, e.exit, tail(&o.out.stdout), tail(&o.out.stderr)) });
    }
    if let Some(t) = &e.err_text {
        if !o.out.stdout.contains(t.trim_end()) {
            return Some(Fail { clause: "stdout-error", inv: inv_i, detail: format!("stdout {:?}, expected the library's message {:?}", o.out.stdout, t) });
        }
    }
    if let Some((w, r, c)) = &e.run_ok {
        if let Err(s) = check_stdout_run(&o.out.stdout, w, r, c) {
            return Some(Fail { clause: "stdout", inv: inv_i, detail: s });
        }
    }
    for (p, m) in &e.writes {
        match after.get(p) {
            Some(Some(b)) => {
                if let Err(s) = content_matches(b, m) {
                    let clause = match m {
                        Meaning::Words(_) => "output-file",
                        _ => "conv-content",
                    };
                    return Some(Fail { clause, inv: inv_i, detail: format!("{p}: {s}") });
                }
            }
            _ => return Some(Fail { clause: "missing-output", inv: inv_i, detail: format!("{p} was not written; stdout {:?} stderr {:?}", tail(&o.out.stdout), tail(&o.out.stderr)) }),
        }
    }
    if let Some(ei) = &e.either {
        let mut any_right = false;
        let mut any_existed = false;
        for c in &ei.cands {
            let b = before.get(c);
            let a = after.get(c);
            if b.is_some() {
                any_existed = true;
            }
            let right = matches!(a, Some(Some(bytes)) if content_matches(bytes, &ei.meaning).is_ok());
            any_right |= right;
            if a != b {
                if b.is_some() && !ei.yes {
                    return Some(Fail { clause: "overwrite-declined-but-changed", inv: inv_i, detail: format!("{c} existed, every overwrite question was answered no, and it changed") });
                }
                if !right {
                    return Some(Fail { clause: "output-file", inv: inv_i, detail: format!("{c} was written but does not hold the result") });
                }
            }
        }
        if !any_right && (ei.yes || !any_existed) {
            return Some(Fail { clause: "missing-output", inv: inv_i, detail: format!("none of {:?} holds the result; stdout {:?}", ei.cands, tail(&o.out.stdout)) });
        }
    }
    conservation(e, before, after, inv_i)
}

fn conservation(e: &Expect, before: &Snap, after: &Snap, inv_i: usize) -> Option<Fail> {
    let mut written: BTreeSet<&String> = e.writes.iter().map(|(p, _)| p).collect();
    if let Some(ei) = &e.either {
        written.extend(ei.cands.iter());
    }
    for (p, c) in before {
        if written.contains(p) {
            continue;
        }
        match after.get(p) {
            None => return Some(Fail { clause: "conservation", inv: inv_i, detail: format!("{p} disappeared") }),
            Some(a) => {
                if a != c {
                    return Some(Fail { clause: "conservation", inv: inv_i, detail: format!("{p} changed although the invocation should not touch it") });
                }
            }
        }
    }
    for p in after.keys() {
        if !before.contains_key(p) && !written.contains(p) {
            return Some(Fail { clause: "conservation", inv: inv_i, detail: format!("unexpected new path {p}") });
        }
    }
    None
}

fn tail(s: &str) -> String {
    let n = s.chars().count();
    if n > 300 {
        s.chars().skip(n - 300).collect()
    } else {
        s.to_string()
    }
}

fn is_prefix(a: &[u8], full: &[u8]) -> bool {
    full.len() >= a.len() && &full[..a.len()] == a
}

/// relaxed check after a hard fault or a crash: untouched files conserved; targets hold
/// their old content, nothing, a prefix of the right content or the right content; and an
/// invocation that reports success must have produced exactly the fault-free result.
fn check_relaxed(e: &Expect, fo: &InvOut, rec: &InvOut, before: &Snap, rec_after: &Snap, after: &Snap, inv_i: usize, crash: bool) -> Option<Fail> {
    let may: BTreeSet<&String> = e.may_touch.iter().collect();
    for (p, c) in before {
        if may.contains(p) {
            continue;
        }
        if after.get(p) != Some(c) {
            return Some(Fail { clause: "conservation-under-fault", inv: inv_i, detail: format!("{p} changed or disappeared under an injected fault") });
        }
    }
    for p in after.keys() {
        if !before.contains_key(p) && !may.contains(p) {
            return Some(Fail { clause: "conservation-under-fault", inv: inv_i, detail: format!("unexpected new path {p} under an injected fault") });
        }
    }
    for p in &e.may_touch {
        let old = before.get(p);
        let now = after.get(p);
        if now == old {
            continue;
        }
        // a target the user declined to overwrite (or that the fault-free run leaves as it
        // was) must stay as it was; a target that is written may hold a prefix of the right
        // content; nothing the tool does can make an existing file disappear
        let right = rec_after.get(p);
        let ok = match (now, right) {
            (Some(Some(n)), Some(Some(r))) => {
                let written = e.writes.iter().any(|(wp, _)| wp == p)
                    || e.either.as_ref().map(|ei| ei.cands.contains(p) && (ei.yes || old.is_none())).unwrap_or(false);
                written && is_prefix(n, r)
            }
            _ => false,
        };
        if !ok {
            return Some(Fail { clause: "wrong-data-under-fault", inv: inv_i, detail: format!("{p} is neither as it was nor a prefix of the correct content (it is {})", if now.is_none() { "gone" } else { "something else" }) });
        }
    }
    // exit status 0 is a report of success, whatever was printed: everything must then be as
    // after the fault-free run (the only tolerated 'success with a message' is the library's
    // own error path, and that writes nothing and is the same in both runs)
    if !crash && fo.out.code == Some(0) {
        for p in &e.may_touch {
            if after.get(p) != rec_after.get(p) {
                return Some(Fail { clause: "silent-failure", inv: inv_i, detail: format!("exit status 0 although an I/O fault was injected, but {p} differs from the fault-free result; stdout {:?}", tail(&fo.out.stdout)) });
            }
        }
        // ... and what the user is told must be what the fault-free run tells: a fault that was
        // swallowed and changed the listing (an input that was skipped) is a failure reported as success
        if fo.faults_fired > 0 && fo.out.stdout != rec.out.stdout {
            return Some(Fail { clause: "silent-failure", inv: inv_i, detail: format!("exit status 0 although an I/O fault was injected, but stdout differs from the fault-free run: {:?} instead of {:?}", tail(&fo.out.stdout), tail(&rec.out.stdout)) });
        }
    }
    None
}

#[derive(Default, Clone, Debug)]
pub struct Stats {
    pub invocations: u64,
    pub judged: u64,
    pub unjudgeable: u64,
    pub hangs: u64,
    pub ops: u64,
    pub faults: BTreeMap<String, u64>,
    pub probes: BTreeMap<String, u64>,
    pub getrandom: u64,
    pub log: u64,
    /// invocations that wrote at least one file or had a fault fire
    pub effects: u64,
}

impl Stats {
    pub fn probe(&mut self, k: &str) {
        *self.probes.entry(k.to_string()).or_default() += 1;
    }
    pub fn merge(&mut self, o: &Stats) {
        self.invocations += o.invocations;
        self.judged += o.judged;
        self.unjudgeable += o.unjudgeable;
        self.hangs += o.hangs;
        self.ops += o.ops;
        self.getrandom += o.getrandom;
        self.effects += o.effects;
        for (k, v) in &o.faults {
            *self.faults.entry(k.clone()).or_default() += v;
        }
        for (k, v) in &o.probes {
            *self.probes.entry(k.clone()).or_default() += v;
        }
        let mut f = Fnv(self.log ^ 0x9e37);
        f.u64(o.log);
        self.log = f.0;
    }
}

pub fn count_faults(st: &mut Stats, o: &InvOut) {
    for op in &o.ops {
        if op.fault != "-" && op.fault != "NA" {
            *st.faults.entry(op.fault.clone()).or_default() += 1;
            // where it landed: operation kind x fault kind (reported as faults_by_operation)
            *st.probes.entry(format!("fault:{}:{}", op.kind, op.fault)).or_default() += 1;
        }
    }
}

fn log_inv(st: &mut Stats, o: &InvOut, after: &Snap) {
    let mut f = Fnv(st.log ^ 0x51);
    f.u64(o.out.code.unwrap_or(-1) as u64);
    f.str(&o.out.stdout);
    for op in &o.ops {
        f.str(&op.kind);
        f.str(&op.arg);
        f.str(&op.ret);
        f.str(&op.fault);
    }
    for (p, c) in after {
        f.str(p);
        if let Some(b) = c {
            f.bytes(b);
        }
    }
    st.log = f.0;
}

/// Execute a history and judge it.  Returns the first failure, if any; fills in the
/// plans that were drawn so that the scenario becomes fully explicit.
pub fn run_history(root: &str, scn: &mut Scn, oracle: &mut Oracle, st: &mut Stats) -> Option<Fail> {
    let r = run_history_inner(root, scn, oracle, st);
    cli::set_iocap(0);
    r
}

fn run_history_inner(root: &str, scn: &mut Scn, oracle: &mut Oracle, st: &mut Stats) -> Option<Fail> {
    cli::write_tree(root, &scn.files, &scn.dirs);
    let mut meaning = scn.meaning.clone();
    for i in 0..scn.invs.len() {
        let inv = scn.invs[i].clone();
        if let Cmd::Edit { path, text, meaning: m } = &inv.cmd {
            let full = format!("{root}/{path}");
            std::fs::write(&full, text).unwrap_or_else(|e| harness_error(&format!("edit {full}: {e}")));
            meaning.insert(path.clone(), m.clone());
            st.probe("file_edited_between_invocations");
            continue;
        }
        let before = cli::snapshot(root);
        let args = inv.cmd.argv();
        let stdin = cli::stdin_script(&inv.answers);
        let pred = predict(&before, &meaning, &inv, &inv.answers, oracle);
        let e = match pred {
            Pred::Judged(e) => e,
            Pred::Unjudgeable(_) => {
                st.unjudgeable += 1;
                return None; // the rest of the history cannot be judged either
            }
        };
        // probes
        match &inv.cmd {
            Cmd::Run { rules, json, words, .. } => {
                if rules.is_none() && json.is_none() {
                    st.probe(if e.exit != 1 { "discovery_one_candidate" } else { "discovery_rejected" });
                }
                if json.is_some() && words.is_some() {
                    st.probe("json_with_w_override");
                }
                if e.err_text.is_some() {
                    st.probe("library_err_path_printed");
                }
            }
            Cmd::ConvJson { rules, alias, .. } => {
                if rules.is_some() && alias.is_some() {
                    st.probe("conv_json_explicit_r_and_a");
                }
            }
            _ => {}
        }
        if e.may_touch.len() > e.writes.len() {
            st.probe("prompt_declined_file_must_stay");
        }
        // ---- the fault-free execution (also the recording for fault placement)
        cli::set_iocap(inv.iocap);
        if inv.iocap > 0 {
            st.probe("invocations_under_transfer_cap");
        }
        let rec = cli::exec(root, &inv.cwd, &args, &stdin, inv.detrand, inv.dirseed, &vec![]);
        st.invocations += 1;
        st.ops += rec.ops.len() as u64;
        if rec.ops.len() > 150 && std::env::var("VERIF_DEBUG").is_ok() {
            eprintln!("DEBUG many ops: {} {:?} first {:?} last {:?}", rec.ops.len(), args, rec.ops.first(), rec.ops.last());
        }
        st.getrandom += rec.getrandom_calls;
        if rec.out.timed_out {
            // the model predicted an ordinary completion (for `run` the library has just answered
            // the same input in the oracle processes, the other commands do not call it), every
            // prompt was answered, no fault was injected: not exiting is the tool's doing
            st.hangs += 1;
            return Some(Fail { clause: "no-exit", inv: i, detail: format!("no exit within {} s on a fault-free invocation with all prompts answered; stdout so far {:?}", cli::INV_TIMEOUT_MS / 1000, tail(&rec.out.stdout)) });
        }
        let rec_after = cli::snapshot(root);
        log_inv(st, &rec, &rec_after);
        st.judged += 1;
        if let Some(f) = check_strict(&e, &rec, &before, &rec_after, i) {
            return Some(f);
        }
        if rec_after != before {
            st.effects += 1;
        }
        let mut final_after = rec_after.clone();
        if inv.class != FaultClass::None {
            // choose the plan from the recorded trace, rewind the disk, run again with faults
            let plan = if inv.plan.is_empty() {
                let mut fr = Rng::new(inv.fault_seed);
                cli::draw_plan(&rec.ops, inv.class, &mut fr)
            } else {
                inv.plan.clone()
            };
            scn.invs[i].plan = plan.clone();
            if !plan.is_empty() {
                cli::restore(root, &before);
                let fo = cli::exec(root, &inv.cwd, &args, &stdin, inv.detrand, inv.dirseed, &plan);
                st.invocations += 1;
                st.ops += fo.ops.len() as u64;
                count_faults(st, &fo);
                if fo.faults_fired > 0 {
                    st.effects += 1;
                }
                if fo.out.timed_out {
                    st.hangs += 1;
                    return None;
                }
                let after = cli::snapshot(root);
                log_inv(st, &fo, &after);
                final_after = after.clone();
                if fo.faults_fired == 0 {
                    if let Some(f) = check_strict(&e, &fo, &before, &after, i) {
                        return Some(f);
                    }
                } else {
                    match inv.class {
                        FaultClass::Benign => {
                            if let Some(mut f) = check_strict(&e, &fo, &before, &after, i) {
                                f.clause = "benign-fault-changed-result";
                                f.detail = format!("plan {} : {}", cli::plan_string(&plan), f.detail);
                                return Some(f);
                            }
                            if fo.out.stdout != rec.out.stdout || after != rec_after {
                                return Some(Fail { clause: "benign-fault-changed-result", inv: i, detail: format!("plan {}: stdout or files differ from the fault-free run", cli::plan_string(&plan)) });
                            }
                        }
                        FaultClass::Hard | FaultClass::Crash => {
                            let crash = fo.crashed;
                            if let Some(mut f) = check_relaxed(&e, &fo, &rec, &before, &rec_after, &after, i, crash) {
                                f.detail = format!("plan {} : {}", cli::plan_string(&plan), f.detail);
                                return Some(f);
                            }
                            if inv.recover {
                                // repeat fault-free, overwrite confirmed: the final state must be right
                                let yes: Vec<String> = vec!["y".into(), "y".into(), "y".into(), "y".into()];
                                // a target the faulted run damaged no longer means what it meant (it may
                                // also be an *input* of this very invocation, e.g. `-w x.wsca -o x.wsca`)
                                let mut meaning2 = meaning.clone();
                                for p in &e.may_touch {
                                    if after.get(p) != before.get(p) {
                                        let m = e.writes.iter().find(|(wp, _)| wp == p).map(|(_, m)| m.clone());
                                        match (m, after.get(p) == rec_after.get(p)) {
                                            (Some(m), true) => {
                                                meaning2.insert(p.clone(), m);
                                            }
                                            _ => {
                                                meaning2.remove(p);
                                            }
                                        }
                                    }
                                }
                                let e2 = match predict(&after, &meaning2, &inv, &yes, oracle) {
                                    Pred::Judged(e2) => e2,
                                    Pred::Unjudgeable(_) => {
                                        st.unjudgeable += 1;
                                        return None;
                                    }
                                };
                                let ro = cli::exec(root, &inv.cwd, &args, &cli::stdin_script(&yes), inv.detrand, inv.dirseed, &vec![]);
                                st.invocations += 1;
                                if ro.out.timed_out {
                                    st.hangs += 1;
                                    return None;
                                }
                                let after2 = cli::snapshot(root);
                                log_inv(st, &ro, &after2);
                                st.probe("recovery_after_fault");
                                if crash && plan.iter().any(|(_, k)| k == "TORN") {
                                    st.probe("recovery_after_torn_write");
                                }
                                if let Some(mut f) = check_strict(&e2, &ro, &after, &after2, i) {
                                    f.clause = "recovery";
                                    f.detail = format!("after plan {} and a fault-free repeat: {}", cli::plan_string(&plan), f.detail);
                                    return Some(f);
                                }
                                meaning = meaning2;
                                for (p, m) in &e2.writes {
                                    meaning.insert(p.clone(), m.clone());
                                }
                                continue;
                            }
                        }
                        FaultClass::None => {}
                    }
                }
            }
        }
        if let Some(ei) = &e.either {
            for c in &ei.cands {
                if final_after.get(c) != before.get(c) {
                    meaning.insert(c.clone(), ei.meaning.clone());
                }
            }
        }
        // ---- update what the files mean
        for p in &e.may_touch {
            if e.either.as_ref().map(|ei| ei.cands.contains(p)).unwrap_or(false) {
                continue;
            }
            let now = final_after.get(p);
            if now == before.get(p) {
                continue; // untouched: keeps its old meaning
            }
            let m = e.writes.iter().find(|(wp, _)| wp == p).map(|(_, m)| m.clone());
            match (m, now == rec_after.get(p)) {
                (Some(m), true) => {
                    meaning.insert(p.clone(), m);
                }
                _ => {
                    meaning.remove(p);
                }
            }
        }
    }
    None
}

// ------------------------------------------------------------------ shrinking, reporting

fn referenced(scn: &Scn) -> BTreeSet<String> {
    let mut s = BTreeSet::new();
    for inv in &scn.invs {
        let mut add = |o: &Option<String>| {
            if let Some(p) = o {
                s.insert(cli::resolve(&inv.cwd, p));
            }
        };
        match &inv.cmd {
            Cmd::Run { rules, json, words, alias, output, compare } => {
                add(rules);
                add(json);
                add(words);
                add(alias);
                add(output);
                add(compare);
            }
            Cmd::ConvAsca { words, rules, alias, output } => {
                add(words);
                add(rules);
                add(alias);
                add(output);
            }
            Cmd::Edit { .. } => {}
            Cmd::ConvJson { path, words, rules, alias } => {
                add(path);
                add(words);
                add(rules);
                add(alias);
            }
        }
    }
    s
}

fn fails_same(root: &str, scn: &Scn, clause: &str, oracle: &mut Oracle, budget: &mut u32) -> Option<(Scn, Fail)> {
    if *budget == 0 {
        return None;
    }
    *budget -= 1;
    let mut s = scn.clone();
    let mut st = Stats::default();
    match run_history(root, &mut s, oracle, &mut st) {
        Some(f) if f.clause == clause => Some((s, f)),
        _ => None,
    }
}

pub fn shrink(root: &str, scn: &Scn, fail: &Fail, oracle: &mut Oracle) -> (Scn, Fail) {
    // every re-execution of a hanging history costs the full watchdog
    let mut budget = if fail.clause == "no-exit" { 8u32 } else { 200u32 };
    let mut cur = scn.clone();
    let mut curf = fail.clone();
    // 1. cut the history after the failing invocation
    cur.invs.truncate(curf.inv + 1);
    // 2. drop earlier invocations
    let mut i = 0;
    while i + 1 < cur.invs.len() {
        let mut cand = cur.clone();
        cand.invs.remove(i);
        if let Some((s, f)) = fails_same(root, &cand, curf.clause, oracle, &mut budget) {
            cur = s;
            curf = f;
        } else {
            i += 1;
        }
    }
    // 3. simplify fault plans: non-failing invocations fault-free, failing one fewer entries
    for i in 0..cur.invs.len() {
        if cur.invs[i].class != FaultClass::None && i != curf.inv {
            let mut cand = cur.clone();
            cand.invs[i].class = FaultClass::None;
            cand.invs[i].plan.clear();
            cand.invs[i].recover = false;
            if let Some((s, f)) = fails_same(root, &cand, curf.clause, oracle, &mut budget) {
                cur = s;
                curf = f;
            }
        }
    }
    let fi = curf.inv.min(cur.invs.len() - 1);
    if cur.invs[fi].class != FaultClass::None {
        let mut cand = cur.clone();
        cand.invs[fi].class = FaultClass::None;
        cand.invs[fi].plan.clear();
        cand.invs[fi].recover = false;
        if let Some((s, f)) = fails_same(root, &cand, curf.clause, oracle, &mut budget) {
            cur = s;
            curf = f;
        } else {
            let mut k = 0;
            while cur.invs[fi].plan.len() > 1 && k < cur.invs[fi].plan.len() {
                let mut cand = cur.clone();
                cand.invs[fi].plan.remove(k);
                if let Some((s, f)) = fails_same(root, &cand, curf.clause, oracle, &mut budget) {
                    cur = s;
                    curf = f;
                } else {
                    k += 1;
                }
            }
        }
    }
    // 4. drop files nobody names (keeps discovery-relevant ones only if needed)
    let refd = referenced(&cur);
    let paths: Vec<String> = cur.files.keys().cloned().collect();
    for p in paths {
        if !refd.contains(&p) {
            let mut cand = cur.clone();
            cand.files.remove(&p);
            cand.meaning.remove(&p);
            if let Some((s, f)) = fails_same(root, &cand, curf.clause, oracle, &mut budget) {
                cur = s;
                curf = f;
            }
        }
    }
    // 5. simplify the content of the initial files (plain rendering of a smaller meaning)
    let paths: Vec<String> = cur.files.keys().cloned().collect();
    for p in paths {
        loop {
            let Some(m) = cur.meaning.get(&p).cloned() else { break };
            let smaller: Vec<Meaning> = match &m {
                Meaning::Words(w) if w.len() > 1 => (0..w.len()).map(|k| { let mut v = w.clone(); v.remove(k); Meaning::Words(v) }).collect(),
                Meaning::Rules(g) if g.len() > 1 => (0..g.len()).map(|k| { let mut v = g.clone(); v.remove(k); Meaning::Rules(v) }).collect(),
                Meaning::Rules(g) if g.len() == 1 && g[0].rule.len() > 1 => (0..g[0].rule.len()).map(|k| { let mut v = g.clone(); v[0].rule.remove(k); Meaning::Rules(v) }).collect(),
                _ => vec![],
            };
            let mut progressed = false;
            for sm in smaller {
                let text = match &sm {
                    Meaning::Words(w) => w.join("\n"),
                    Meaning::Rules(g) => plain_rsca(g),
                    _ => continue,
                };
                let mut cand = cur.clone();
                cand.files.insert(p.clone(), text);
                cand.meaning.insert(p.clone(), sm);
                if let Some((s, f)) = fails_same(root, &cand, curf.clause, oracle, &mut budget) {
                    cur = s;
                    curf = f;
                    progressed = true;
                    break;
                }
            }
            if !progressed || budget == 0 {
                break;
            }
        }
    }
    (cur, curf)
}

fn plain_rsca(g: &[crate::instance::Group]) -> String {
    let mut s = String::new();
    for x in g {
        s.push_str(&format!("@ {}\n", x.name));
        for r in &x.rule {
            s.push_str(&format!("    {r}\n"));
        }
        if !x.description.is_empty() {
            for d in x.description.split('\n') {
                s.push_str(&format!("# {d}\n"));
            }
        }
        s.push('\n');
    }
    s
}

fn cmd_shape(c: &Cmd) -> String {
    let a = c.argv();
    a.iter().filter(|x| x.starts_with('-') || ["run", "conv", "asca", "json"].contains(&x.as_str())).cloned().collect::<Vec<_>>().join(" ")
}

pub fn to_violation(prop: &str, engine: &str, scn: &Scn, f: &Fail, seed: u64) -> Violation {
    let inv = &scn.invs[f.inv.min(scn.invs.len() - 1)];
    let signature = format!("{}[{}]", cmd_shape(&inv.cmd).replace(' ', "_"), cli::plan_string(&inv.plan));
    let detail = format!(
        "clause {} at invocation {} of {}: `asca {}` (cwd {:?}, answers {:?}, DETRAND_SEED={}, plan [{}])\n  {}",
        f.clause,
        f.inv,
        scn.invs.len(),
        inv.cmd.argv().join(" "),
        inv.cwd,
        inv.answers,
        inv.detrand,
        cli::plan_string(&inv.plan),
        f.detail
    );
    let replay = json!({
        "property": prop, "engine": engine, "verif_seed": seed, "clause": f.clause,
        "scenario": scn,
        "argv": scn.invs.iter().map(|i| i.cmd.argv()).collect::<Vec<_>>(),
        "observed": {"invocation": f.inv, "detail": f.detail},
        "expected": "each invocation exits, prints and writes what the reference model (asca::run on the intended structure of the files, doc/doc-cli.md for formats and prompts) predicts; untouched files stay byte-identical; under injected faults no wrong data and no silent failure",
    });
    Violation { property: prop.into(), clause: f.clause.into(), signature, detail, replay }
}

pub struct Tier {
    pub name: &'static str,
    pub clean: usize,
    pub faulty: usize,
    pub enum_bases: usize,
}

pub fn tier(name: &str) -> Tier {
    match name {
        "thorough" => Tier { name: "thorough", clean: 60_000, faulty: 60_000, enum_bases: 300 },
        "mini" => Tier { name: "quick", clean: 150, faulty: 150, enum_bases: 2 },
        _ => Tier { name: "quick", clean: 2_500, faulty: 2_500, enum_bases: 8 },
    }
}

pub fn oracle_keys(seed: u64) -> u64 {
    prng::mix(seed ^ 0x0c1e)
}

pub fn main_c19(tier_name: &str, seed: u64) -> i32 {
    let t0 = Instant::now();
    let tr = tier(tier_name);
    let d = Data::load();
    let known = Known::load();
    let scratch = Scratch::new("c19");
    let workers = proc::workers();
    println!("c19 tier={} VERIF_SEED={} workers={}", tr.name, seed, workers);
    let total = tr.clean + tr.faulty;
    // work is split into fixed chunks so that nothing depends on the worker count
    let chunk = 50usize;
    let nchunks = (total + chunk - 1) / chunk;
    let results = par_map(nchunks, workers, |c| {
        let mut oracle = Oracle::new(oracle_keys(seed));
        let mut st = Stats::default();
        let mut fails: Vec<(usize, Scn, Fail)> = Vec::new();
        let mut samples: Vec<Value> = Vec::new();
        let mut digests: Vec<(u64, bool)> = Vec::new();
        let root = format!("{}/p{}", scratch.path, c);
        for i in (c * chunk)..((c + 1) * chunk).min(total) {
            let faulty = i >= tr.clean;
            let mut r = Rng::derive(seed, prng::D_GEN, i as u64);
            let mut scn = c19gen::gen_scn(&d, &mut r, faulty);
            let before_judged = st.judged;
            let before_effects = st.effects;
            let f = run_history(&root, &mut scn, &mut oracle, &mut st);
            let mut fd = Fnv::new();
            fd.str(&serde_json::to_string(&scn).unwrap());
            digests.push((fd.0, st.judged > before_judged && st.effects > before_effects));
            if i % 997 == 0 && samples.len() < 3 {
                samples.push(json!({"scenario_index": i, "files": scn.files.keys().collect::<Vec<_>>(), "invocations": scn.invs.iter().map(|x| format!("asca {} [class {:?} plan {}]", x.cmd.argv().join(" "), x.class, cli::plan_string(&x.plan))).collect::<Vec<_>>()}));
            }
            if let Some(f) = f {
                if fails.len() < 2 {
                    fails.push((i, scn, f));
                }
            }
        }
        let _ = std::fs::remove_dir_all(&root);
        st.probes.insert("oracle_queries".into(), oracle.queries);
        st.probes.insert("oracle_unstable".into(), oracle.unstable);
        (st, fails, samples, digests)
    });

    let mut st = Stats::default();
    let mut all_fails = Vec::new();
    let mut samples = Vec::new();
    let mut distinct: BTreeSet<u64> = BTreeSet::new();
    for (s, f, sm, dg) in results {
        st.merge(&s);
        all_fails.extend(f);
        for x in sm {
            if samples.len() < 6 {
                samples.push(x);
            }
        }
        for (dig, judged) in dg {
            if judged {
                distinct.insert(dig);
            }
        }
    }

    // ---- enumerated sub-space: every single-fault placement for a few base histories
    let mut enum_runs = 0u64;
    let mut enum_placements = 0u64;
    if all_fails.is_empty() {
        let res = par_map(tr.enum_bases, workers, |b| {
            let mut oracle = Oracle::new(oracle_keys(seed));
            let mut st = Stats::default();
            let root = format!("{}/e{}", scratch.path, b);
            let mut r = Rng::derive(seed, prng::D_FAULT, b as u64);
            let mut base = c19gen::gen_scn(&d, &mut r, false);
            base.invs.truncate(2);
            let mut fails = Vec::new();
            let mut placements = 0u64;
            // record the trace of the last invocation, then try every placement on it
            let li = base.invs.len() - 1;
            let mut probe = base.clone();
            let mut pst = Stats::default();
            if run_history(&root, &mut probe, &mut oracle, &mut pst).is_none() && pst.judged as usize == base.invs.len() {
                // re-execute the prefix to obtain the ops of the last invocation
                cli::write_tree(&root, &base.files, &base.dirs);
                let mut ok = true;
                for inv in &base.invs[..li] {
                    let o = cli::exec(&root, &inv.cwd, &inv.cmd.argv(), &cli::stdin_script(&inv.answers), inv.detrand, inv.dirseed, &vec![]);
                    ok &= !o.out.timed_out;
                }
                if ok {
                    let inv = &base.invs[li];
                    let o = cli::exec(&root, &inv.cwd, &inv.cmd.argv(), &cli::stdin_script(&inv.answers), inv.detrand, inv.dirseed, &vec![]);
                    for (idx, kind, class) in cli::all_single_faults(&o.ops) {
                        let mut s = base.clone();
                        s.invs[li].class = class;
                        s.invs[li].plan = vec![(idx, kind.to_string())];
                        s.invs[li].recover = class != FaultClass::Benign;
                        placements += 1;
                        if let Some(f) = run_history(&root, &mut s, &mut oracle, &mut st) {
                            if fails.len() < 2 {
                                fails.push((1_000_000 + b, s, f));
                            }
                        }
                    }
                }
            }
            let _ = std::fs::remove_dir_all(&root);
            (st, fails, placements)
        });
        for (s, f, p) in res {
            enum_runs += s.invocations;
            enum_placements += p;
            st.merge(&s);
            all_fails.extend(f);
        }
    }

    // ---- minimise and report
    let mut violations = Vec::new();
    if !all_fails.is_empty() {
        all_fails.sort_by_key(|(i, _, _)| *i);
        println!("c19: {} failing histories; minimising the first of each clause", all_fails.len());
        let mut oracle = Oracle::new(oracle_keys(seed));
        let root = format!("{}/shrink", scratch.path);
        // per clause: minimise failing histories in order until one is found that is NOT a listed
        // known finding (so that a known finding never hides a different violation of the clause)
        let mut done: BTreeSet<&'static str> = BTreeSet::new();
        let mut tried: BTreeMap<&'static str, u32> = BTreeMap::new();
        for (_, scn, f) in &all_fails {
            if done.contains(f.clause) || (done.len() >= 3 && !tried.contains_key(f.clause)) {
                continue;
            }
            let n = tried.entry(f.clause).or_default();
            if *n >= 8 {
                continue;
            }
            *n += 1;
            let (s, sf) = shrink(&root, scn, f, &mut oracle);
            let v = to_violation("C19", "c19", &s, &sf, seed);
            let is_known = known.matches(&v).is_some();
            violations.push(v);
            if !is_known {
                done.insert(f.clause);
            }
        }
    }

    // ---- probes that must be non-zero
    let mut need = vec!["library_err_path_printed", "prompt_declined_file_must_stay", "discovery_one_candidate", "discovery_rejected", "json_with_w_override", "conv_json_explicit_r_and_a"];
    if tr.faulty > 0 {
        need.push("recovery_after_fault");
    }
    if violations.is_empty() && tier_name != "mini" {
        for n in need {
            if st.probes.get(n).copied().unwrap_or(0) == 0 {
                harness_error(&format!("probe {n} is zero: the workload missed what it is for"));
            }
        }
        if st.getrandom == 0 {
            harness_error("the interposer saw no getrandom call: seam dead");
        }
        if st.ops == 0 {
            harness_error("the interposer traced no file operation: seam dead");
        }
    }
    let wall = t0.elapsed().as_secs_f64();
    let mut extra = BTreeMap::new();
    extra.insert("histories".into(), json!(total));
    extra.insert("invocations".into(), json!(st.invocations));
    extra.insert("invocations_judged".into(), json!(st.judged));
    extra.insert("histories_unjudgeable_from_some_point".into(), json!(st.unjudgeable));
    extra.insert("skipped_hangs".into(), json!(st.hangs));
    extra.insert("sim_ops_intercepted".into(), json!(st.ops));
    extra.insert("faults_fired".into(), json!(st.faults));
    let by_op: BTreeMap<String, u64> = st.probes.iter().filter(|(k, _)| k.starts_with("fault:")).map(|(k, v)| (k[6..].to_string(), *v)).collect();
    st.probes.retain(|k, _| !k.starts_with("fault:"));
    extra.insert("faults_by_operation".into(), json!(by_op));
    extra.insert("probes".into(), json!(st.probes));
    extra.insert("fault_enumeration".into(), json!({"base_histories": tr.enum_bases, "single_fault_placements": enum_placements, "invocations": enum_runs, "exhaustive_over": "every operation index x every applicable fault kind of the last invocation of each base history (1-byte reads of JSON input strided to <=24 per invocation)"}));
    extra.insert("runs_per_hour".into(), json!(((st.invocations as f64) / wall * 3600.0) as u64));
    extra.insert("seeds_per_hour".into(), json!(3600.0 / wall));
    extra.insert("simulated_time".into(), json!("none: asca reads no clock; simulated operations are counted instead"));
    extra.insert("event_log_digest".into(), json!(format!("{:016x}", st.log)));
    extra.insert("real_vs_stub".into(), report::real_vs_stub());
    extra.insert("known_findings_reproduced".into(), json!(violations.iter().filter(|v| known.matches(v).is_some()).map(|v| format!("{}:{}", v.clause, v.signature)).collect::<Vec<_>>()));
    Evidence {
        property: "C19".into(),
        tier: tr.name.into(),
        seed,
        level: "exploration".into(),
        evaluations: st.invocations,
        distinct_nontrivial: distinct.len() as u64,
        rule: "a case is one history (project files + 1-6 invocations + fault plans); distinct by digest of the explicit scenario including the drawn plans; non-trivial when at least one invocation was judged against the reference model AND changed the simulated disk or had an injected fault fire".into(),
        samples,
        exhaustive: false,
        extra,
        assumptions: vec![
            "asca::run is the reference (the property compares the command line against it)".into(),
            "doc/doc-cli.md and --help for file formats, prompt and discovery semantics, restricted to forms the manual settles".into(),
            "glibc symbol interposition and tmpfs behave as the seam self-test observed".into(),
        ],
        wall_s: wall,
        violations: violations.iter().filter(|v| known.matches(v).is_none()).count() as u64,
    }
    .write();
    println!("c19: {} histories, {} invocations ({} judged), {} ops, faults {:?}, digest {:016x}, {:.1}s", total, st.invocations, st.judged, st.ops, st.faults, st.log, wall);
    report::finish("C19", violations, &known)
}

pub fn replay(doc: &Value, path: &str) -> i32 {
    let scratch = Scratch::new("c19r");
    let seed = doc.get("verif_seed").and_then(|v| v.as_u64()).unwrap_or(1);
    let mut scn: Scn = serde_json::from_value(doc["scenario"].clone()).unwrap_or_else(|e| harness_error(&format!("bad replay: {e}")));
    let mut oracle = Oracle::new(oracle_keys(seed));
    let mut st = Stats::default();
    let root = format!("{}/r", scratch.path);
    match run_history(&root, &mut scn, &mut oracle, &mut st) {
        Some(f) => {
            println!("{}", to_violation("C19", "c19", &scn, &f, seed).detail);
            println!("VIOLATION property=C19 replay={path}");
            1
        }
        None => {
            println!("replay: not reproduced");
            0
        }
    }
}
